#!/bin/sh
# setup_cmd: offline install of the contract library beside the repository's interpreter,
# then a sanity import of the framework against /repo's working tree.
set -e
cd "$(dirname "$0")"
if [ ! -d .deps/icontract ]; then
  /venv/bin/pip install --quiet --no-index --find-links /opt/veriftools/wheels --target .deps icontract >/dev/null 2>&1 || \
  /venv/bin/pip install --no-index --find-links /opt/veriftools/wheels --target .deps icontract
fi
mkdir -p evidence replays
REPO="${VERIF_REPO:-/repo}"
PYTHONHASHSEED=0 PYTHONDONTWRITEBYTECODE=1 JAQALPAQ_VERIF=1 PYTHONPATH="$REPO/src:$PWD/.deps:$PWD" \
  /venv/bin/python -c "import icontract, jaqalpaq.parser, vf.harness; print('setup ok')"
