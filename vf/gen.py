"""Seeded, grammar-directed, feature-quota'd generators of Jaqal programs (as S-expressions).

`ProgGen(rng, **profile).program()` returns a *valid* program for the profile:
names defined before use and unique, indices in range under the declared lets, legal
block nesting (sequential/parallel alternate, subcircuits never inside a subcircuit or a
parallel block, macros only at top level and defined before use).  In `native` mode gates
come from the harness gate set with correct arities/kinds; in `executable` mode the body is
well bracketed by prepare_all/measure_all (or subcircuit blocks) and parallel branches act
on disjoint qubits.
Nothing here imports jaqalpaq.
"""
import math

from . import gateset_sig

LET_NAMES = ["a", "b", "c", "n", "m", "k", "th", "phi", "N", "i0", "let_", "loops", "maps", "__c0", "__c1", "e1", "x.y"]
REG_NAMES = ["q", "r", "reg", "__r0", "qq"]
ALIAS_NAMES = ["u", "v", "w", "z", "al", "u2", "v2", "w2", "__r1", "tgt", "ctl"]
MACRO_NAMES = ["foo", "bar", "baz", "mm", "F", "G2", "macro_", "mac.ro"]
PARAM_NAMES = ["p", "s", "t", "x", "y", "p1", "p2"]
ANON_GATES = ["g", "h", "gg", "Sx", "Px", "R3", "g.h", "loop_", "subcircuits"]

INT_ARGS = [0, 1, -1, 2, 3, 7, 12, 255, -17, 2**31 - 1, 2**31, -(2**31) - 1, 2**63 - 1, 2**63 + 1, 10**30]
FLOAT_ARGS = [0.0, -0.0, 0.5, -0.25, 1.5, 2.0, 3.141592653589793, math.pi / 2, 0.1, 1e-06, 1e-07, 1.5e-05, 1e16, 1.5e300,
              5e-324, 1e22, 123456789.125, -2.5e-10, 6.02e23, float(2**53), 0.30000000000000004, 1e21, 9007199254740993.0,
              # the largest finite double, and doubles that a 32-bit float holds exactly although their decimal text is long
              1.7976931348623157e308, -1.7976931348623157e308, 0.10000000149011612, 0.3333333432674408, 2.700000047683716]


def weighted(rng, pairs):
    tot = sum(w for _, w in pairs)
    r = rng.random() * tot
    for v, w in pairs:
        r -= w
        if r <= 0:
            return v
    return pairs[-1][0]


class ProgGen:
    def __init__(self, rng, **kw):
        self.rng = rng
        p = dict(
            reg_size=(1, 5),
            n_lets=(0, 4),
            n_maps=(0, 4),
            n_macros=(0, 3),
            body_len=(1, 5),
            block_len=(0, 4),
            max_depth=3,
            native=False,
            executable=False,
            p_let_reg=0.25,
            p_usepulses=0.2,
            p_shadow=0.35,
            p_hostile_names=0.15,
            p_float_let=0.4,
            allow_sub=True,
            allow_par=True,
            allow_loop=True,
            allow_macros=True,
            allow_maps=True,
            allow_let_bounds=True,
            allow_empty_blocks=True,
            allow_reg_args=True,
            loop_counts=(0, 1, 2, 3),
            p_let_count=0.3,
            p_let_index=0.25,
            p_let_arg=0.3,
            wild_numbers=True,
            need_register=True,
            p_sub_count=0.5,
            p_qualified_twin=0.0,
            p_reg_macro=0.15,
            p_negative_step=0.15,
            macro_sub=False,
            p_twin=0.0,
            p_overlap=0.0,
            p_idle=0.25,
            p_section_macro=0.25,
        )
        unknown = set(kw) - set(p)
        if unknown:
            raise TypeError("unknown profile keys %s" % unknown)
        p.update(kw)
        self.p = p
        self.used = set()
        self.lets = {}  # name -> value
        self.int_lets = []  # names of small non-negative int lets
        self.float_lets = []
        self.regname = None
        self.regsize = 0
        self.elems = {}  # register-like name -> list of physical indices
        self.single = {}  # single-qubit alias -> physical index
        self.macros = {}  # name -> list of param roles
        self.anon_arity = {}
        self.header = []
        self.macro_stmts = []
        self.twins = []

    # -- helpers ----------------------------------------------------------
    def rint(self, lo_hi):
        return self.rng.randint(lo_hi[0], lo_hi[1])

    def fresh(self, pool, prefix):
        rng = self.rng
        cands = [n for n in pool if n not in self.used]
        if self.p["p_hostile_names"] <= 0:
            cands = [n for n in cands if "." not in n and not n.startswith("__") and not n.endswith("_")
                     and n not in ("loops", "maps", "subcircuits")]
        elif rng.random() > self.p["p_hostile_names"]:
            plain = [n for n in cands if "." not in n and not n.startswith("__") and not n.endswith("_")
                     and n not in ("loops", "maps", "subcircuits")]
            cands = plain or cands
        if cands:
            n = rng.choice(cands[:6]) if rng.random() < 0.8 else rng.choice(cands)
        else:
            i = 0
            while "%s%d" % (prefix, i) in self.used:
                i += 1
            n = "%s%d" % (prefix, i)
        self.used.add(n)
        return n

    def number(self, kind=None):
        rng = self.rng
        if kind is None:
            kind = "f" if rng.random() < 0.6 else "i"
        if kind == "i":
            if self.p["wild_numbers"] and rng.random() < 0.3:
                return rng.choice(INT_ARGS)
            return rng.randint(-3, 9)
        if self.p["wild_numbers"] and rng.random() < 0.35:
            return rng.choice(FLOAT_ARGS)
        r = rng.random()
        if r < 0.3:
            return round(rng.uniform(-7, 7), rng.choice([1, 2, 4]))
        if r < 0.6:
            return rng.uniform(-7, 7)
        if r < 0.8:
            return rng.choice([1, 2, 3, 4, 6, 8]) * math.pi / rng.choice([1, 2, 3, 4, 8]) * rng.choice([1, -1])
        return rng.uniform(-1, 1) * 10 ** rng.randint(-9, 9)

    def angle(self):
        """classical float argument (literal or let)."""
        if self.float_lets and self.rng.random() < self.p["p_let_arg"]:
            return self.rng.choice(self.float_lets)
        return self.number("f")

    # -- header -----------------------------------------------------------
    def gen_header(self):
        rng = self.rng
        p = self.p
        if rng.random() < p["p_usepulses"]:
            for _ in range(rng.choice([1, 1, 2])):
                self.header.append(("usepulses", rng.choice(["qscout.v1.std", "mypulses", ".local.pulses", "a.b.c", ".rel"]), "*"))
        nlets = self.rint(p["n_lets"])
        for i in range(nlets):
            name = self.fresh(LET_NAMES, "c")
            r = rng.random()
            if r < 0.45:
                v = rng.randint(0, 4) if rng.random() < 0.8 else rng.randint(1, 3)
                self.int_lets.append(name)
            elif r < 0.45 + p["p_float_let"]:
                v = self.number("f")
                if isinstance(v, float) and v == int(v) and abs(v) < 2**53:
                    pass  # integral floats become ints in the IR; they stay usable as numbers
                self.float_lets.append(name)
            else:
                v = self.number("i")
            self.lets[name] = v
            self.header.append(("let", name, v))
        if self.lets and rng.random() < p["p_qualified_twin"]:
            # a second constant that differs from an existing one only by a namespace prefix (legal: identifiers may be
            # dotted); it has its own value and must never be confused with the short name
            short = rng.choice(sorted(self.lets))
            qual = rng.choice(["cal.", "ns.", "a.b."]) + short
            if qual not in self.used and "." not in short:
                v0 = self.lets[short]
                v = (v0 + 1) if isinstance(v0, int) else (v0 * 0.5 + 1.25)
                self.used.add(qual)
                self.lets[qual] = v
                if isinstance(v, float):
                    self.float_lets.append(qual)
                elif short in self.int_lets and 0 <= v <= 4:
                    self.int_lets.append(qual)
                self.header.append(("let", qual, v))
        if p["need_register"] or rng.random() < 0.9:
            self.regname = self.fresh(REG_NAMES, "q")
            size = self.rint(p["reg_size"])
            lets_ok = [n for n in self.int_lets if self.lets[n] == size]
            if rng.random() < p["p_let_reg"]:
                if not lets_ok:
                    name = self.fresh(LET_NAMES, "c")
                    self.lets[name] = size
                    self.int_lets.append(name)
                    # a let must precede its use: put it before the register
                    self.header.append(("let", name, size))
                    lets_ok = [name]
                self.header.append(("register", self.regname, rng.choice(lets_ok)))
            else:
                self.header.append(("register", self.regname, size))
            self.regsize = size
            self.elems[self.regname] = list(range(size))
            if p["allow_maps"]:
                for _ in range(self.rint(p["n_maps"])):
                    self.gen_map()
        # header statements may come in any order as long as uses follow definitions;
        # keep generation order (lets, register, maps) but sometimes move unused lets later
        return self.header

    def ioi(self, value, p_let):
        """literal int or an int let of that value."""
        cands = [n for n in self.int_lets if self.lets[n] == value]
        if value < 0:
            cands = [n for n, v in self.lets.items() if isinstance(v, int) and not isinstance(v, bool) and v == value]
        if cands and self.rng.random() < p_let:
            return self.rng.choice(cands)
        return value

    def gen_map(self):
        rng = self.rng
        srcs = list(self.elems)
        src = rng.choice(srcs[-3:]) if rng.random() < 0.6 else rng.choice(srcs)
        els = self.elems[src]
        n = len(els)
        name = self.fresh(ALIAS_NAMES, "al")
        pl = 0.5 if self.p["allow_let_bounds"] else 0.0
        kind = weighted(rng, [("whole", 2), ("single", 3), ("slice", 5)])
        if kind == "whole":
            self.header.append(("map", name, src))
            self.elems[name] = list(els)
        elif kind == "single":
            i = rng.randrange(n)
            self.header.append(("map", name, src, self.ioi(i, pl)))
            self.single[name] = els[i]
        elif rng.random() < self.p["p_negative_step"]:
            # a slice counting down: elements start, start+step, ... while > stop (stop may be -1 or lower)
            step = -rng.choice([1, 1, 2, 3])
            start = rng.randrange(n)
            cnt = rng.randint(1, start // (-step) + 1)
            if rng.random() < 0.25:
                # the whole source back to front: as many elements as the source, yet not another name for it
                step, start, cnt = -1, n - 1, n
            last = start + (cnt - 1) * step
            stop = rng.randint(max(last + step, -3), last - 1)
            s_start = None if (start == 0 and rng.random() < 0.3) else self.ioi(start, pl)
            self.header.append(("map", name, src, s_start, self.ioi(stop, pl), self.ioi(step, pl)))
            self.elems[name] = [els[i] for i in range(start, stop, step)]
        else:
            start = rng.randrange(n)
            step = rng.choice([1, 1, 1, 2, 2, 3])
            # choose stop so that the slice is non-empty and within the source
            maxcount = (n - 1 - start) // step + 1
            cnt = rng.randint(1, maxcount)
            last = start + (cnt - 1) * step
            stop = rng.randint(last + 1, min(n, last + step))
            s_start = None if (start == 0 and rng.random() < 0.5) else self.ioi(start, pl)
            s_stop = None if (stop == n and rng.random() < 0.5) else self.ioi(stop, pl)
            s_step = None if (step == 1 and rng.random() < 0.6) else self.ioi(step, pl)
            self.header.append(("map", name, src, s_start, s_stop, s_step))
            self.elems[name] = [els[i] for i in range(start, stop, step)]

    # -- qubit references ---------------------------------------------------
    def qref_for(self, phys, params=None):
        """A reference denoting physical qubit `phys` (through the register, an alias, a let index)."""
        rng = self.rng
        opts = []
        for name, els in self.elems.items():
            for i, e in enumerate(els):
                if e == phys:
                    opts.append((name, i))
        singles = [n for n, e in self.single.items() if e == phys]
        if singles and rng.random() < 0.3:
            return rng.choice(singles)
        name, i = rng.choice(opts)
        if params and name in params:
            # the register name is shadowed by a macro parameter here; use another route
            others = [(n, j) for n, j in opts if n not in params]
            if not others:
                return None
            name, i = rng.choice(others)
        idx = self.ioi(i, self.p["p_let_index"])
        if params and isinstance(idx, str) and idx in params:
            idx = i
        return ("array_item", name, idx)

    def all_phys(self):
        return list(range(self.regsize))

    # -- gates ------------------------------------------------------------
    def native_gate(self, qubits, params=None, roles=None):
        """A native gate statement acting on a subset of `qubits` (physical indices)."""
        rng = self.rng
        names = [n for n in gateset_sig.GATES if gateset_sig.nq(n) <= len(qubits)]
        if rng.random() > self.p["p_idle"]:
            names = [n for n in names if not n.startswith("I_")]
        name = rng.choice(names)
        sig = gateset_sig.GATES[name]
        k = gateset_sig.nq(name)
        qs = rng.sample(qubits, k)
        args = []
        qi = 0
        for _pn, kind in sig:
            if kind == "q":
                ref = self.qref_for(qs[qi], params)
                if ref is None:
                    ref = ("array_item", self.regname, qs[qi])
                args.append(ref)
                qi += 1
            elif kind == "f":
                args.append(self.angle_native())
            else:
                args.append(rng.randint(-3, 8))
        return ("gate", name) + tuple(args), set(qs)

    def angle_native(self):
        rng = self.rng
        fl = [n for n in self.float_lets if abs(self.lets[n]) < 1e6]
        if fl and rng.random() < self.p["p_let_arg"]:
            return rng.choice(fl)
        r = rng.random()
        if r < 0.25:
            return rng.choice([1, 2, 3, 4, 6]) * math.pi / rng.choice([1, 2, 3, 4, 8]) * rng.choice([1, -1])
        if r < 0.35:
            return rng.choice([0.0, 1e-06, -2.5e-10, 1.5e-05, 0.1, 2.0, 1, 3, -1, 0])
        return rng.uniform(-7, 7)

    def anon_gate(self, params=None):
        rng = self.rng
        name = rng.choice(ANON_GATES[:5]) if rng.random() < 0.85 else rng.choice(ANON_GATES)
        if self.p["p_hostile_names"] <= 0 and ("." in name or name.endswith("_") or name == "subcircuits"):
            name = "g"
        if name in self.macros or name in self.used:
            name = "g"
        if not self.p.get("native") and rng.random() < 0.08:
            # a plain gate that carries a name other programs give to a macro
            c = [n for n in MACRO_NAMES[:5] if n not in self.macros and (n not in self.used or n in self.anon_arity)]
            if c:
                name = rng.choice(c)
                self.used.add(name)
        if name not in self.anon_arity:
            self.anon_arity[name] = rng.choice([0, 1, 1, 2, 2, 3])
        args = tuple(self.anon_arg(params) for _ in range(self.anon_arity[name]))
        return ("gate", name) + args

    def anon_arg(self, params=None):
        rng = self.rng
        params = params or {}
        opts = [("num", 3)]
        if self.elems:
            opts.append(("q", 5))
        if self.lets:
            opts.append(("let", 2))
        if self.single:
            opts.append(("single", 1))
        if self.elems and self.p["allow_reg_args"]:
            opts.append(("reg", 0.4))
        if params:
            opts.append(("param", 5))
        k = weighted(rng, opts)
        if k == "num":
            return self.number()
        if k == "let":
            c = [n for n in self.lets if n not in params]
            return rng.choice(c) if c else self.number()
        if k == "single":
            c = [n for n in self.single if n not in params]
            return rng.choice(c) if c else self.number()
        if k == "reg":
            c = [n for n in self.elems if n not in params]
            return rng.choice(c) if c else self.number()
        if k == "param":
            name = rng.choice(list(params))
            role = params[name]
            if role == "reg":
                i = rng.randrange(getattr(self, "_regmin", 1))
                # the index into a register *parameter* may itself be a let (or another parameter used as index)
                idx = self.ioi(i, self.p["p_let_index"])
                if isinstance(idx, str) and idx in params:
                    idx = i
                own = [n for n, r in params.items() if r == "idx"]
                if own and rng.random() < 0.2:
                    idx = rng.choice(own)
                return ("array_item", name, idx)
            if role == "idx" and self.elems:
                c = [n for n in self.elems if n not in params]
                if c:
                    return ("array_item", rng.choice(c), name)
            return name
        # q
        c = [n for n in self.elems if n not in params]
        if not c:
            return self.number()
        name = rng.choice(c)
        i = rng.randrange(len(self.elems[name]))
        idx = self.ioi(i, self.p["p_let_index"])
        if isinstance(idx, str) and idx in params:
            idx = i
        return ("array_item", name, idx)

    # -- macros -------------------------------------------------------------
    def gen_macro(self):
        """Non-native, non-executable macro: arbitrary parameter uses."""
        rng = self.rng
        name = self.fresh(MACRO_NAMES, "mc")
        nparams = rng.choice([0, 1, 1, 2, 2, 3])
        params = {}
        pool = list(PARAM_NAMES)
        if rng.random() < self.p["p_shadow"]:
            pool = list(self.lets) + list(self.elems) + list(self.single) + pool
        regmin = min([len(e) for e in self.elems.values()] or [1])
        for _ in range(nparams):
            c = [n for n in pool if n not in params and "." not in n]
            if not c:
                break
            pn = rng.choice(c[:4]) if rng.random() < 0.7 else rng.choice(c)
            role = weighted(rng, [("q", 4), ("num", 3), ("idx", 2), ("count", 1.5), ("reg", 1.5)])
            if self.p["macro_sub"] and "count" not in params.values() and rng.random() < 0.3:
                role = "count"  # a macro that may hold subcircuit blocks often takes their repetition count as a parameter
            params[pn] = role
        pdict = dict(params)
        self._regmin = regmin
        kind = "parallel_block" if (self.p["allow_par"] and rng.random() < 0.25) else "sequential_block"
        body = self.block_items(kind, depth=1, params=pdict, in_sub=not self.p["macro_sub"], in_par=(kind == "parallel_block"))
        self.macros[name] = [params[k] for k in params]
        return ("macro", name) + tuple(params) + ((kind,) + tuple(body),)

    def macro_call(self, params=None, role_filter=None):
        rng = self.rng
        params = params or {}
        cands = list(self.macros)
        if not cands:
            return None
        name = rng.choice(cands)
        roles = self.macros[name]
        args = []
        for role in roles:
            args.append(self.arg_for_role(role, params))
        return ("gate", name) + tuple(args)

    def arg_for_role(self, role, params):
        rng = self.rng
        own = [n for n, r in params.items() if r == role]
        if own and rng.random() < 0.5:
            return rng.choice(own)
        if role == "q":
            c = [n for n in self.elems if n not in params]
            idxp = [n for n, r in params.items() if r == "idx"]
            if c and idxp and rng.random() < 0.35:
                # a qubit handed on to the inner macro as reg[k], k being an index parameter of the calling macro
                return ("array_item", rng.choice(c), rng.choice(idxp))
            if self.single and rng.random() < 0.25:
                s = [n for n in self.single if n not in params]
                if s:
                    return rng.choice(s)
            if not c:
                return self.number()
            name = rng.choice(c)
            return ("array_item", name, rng.randrange(len(self.elems[name])))
        if role == "num":
            c = [n for n in self.lets if n not in params]
            if c and rng.random() < 0.3:
                return rng.choice(c)
            return self.number()
        if role == "idx":
            regmin = min([len(e) for e in self.elems.values()] or [1])
            i = rng.randrange(regmin)
            c = [n for n in self.int_lets if n not in params and self.lets[n] == i]
            if c and rng.random() < 0.4:
                return rng.choice(c)
            return i
        if role == "count":
            c = [n for n in self.int_lets if n not in params and self.lets[n] <= 3]
            if c and rng.random() < 0.4:
                return rng.choice(c)
            return rng.choice(self.p["loop_counts"])
        if role == "reg":
            c = [n for n in self.elems if n not in params]
            if not c:
                return self.number()
            return rng.choice(c)
        raise ValueError(role)

    # -- statements -----------------------------------------------------------
    def count(self, params=None, counts=None):
        rng = self.rng
        counts = counts or self.p["loop_counts"]
        v = rng.choice(counts)
        if params:
            own = [n for n, r in params.items() if r == "count"]
            if own and rng.random() < 0.6:
                return rng.choice(own)
        c = [n for n in self.int_lets if self.lets[n] == v and not (params and n in params)]
        if c and rng.random() < self.p["p_let_count"]:
            return rng.choice(c)
        return v

    def block_items(self, kind, depth, params=None, in_sub=False, in_par=False):
        rng = self.rng
        n = self.rint(self.p["block_len"])
        if not self.p["allow_empty_blocks"]:
            n = max(n, 1)
        return [self.statement(kind, depth, params, in_sub, in_par) for _ in range(n)]

    def statement(self, ctx, depth, params=None, in_sub=False, in_par=False):
        """ctx: 'top' | 'sequential_block' | 'parallel_block'."""
        rng = self.rng
        p = self.p
        deep = depth >= p["max_depth"]
        opts = [("gate", 6)]
        if self.macros:
            opts.append(("call", 2.5))
        if not deep:
            if ctx in ("top", "sequential_block"):
                if p["allow_par"]:
                    opts.append(("par", 1.5))
                if p["allow_loop"]:
                    opts.append(("loop", 1.5))
                if p["allow_sub"] and not in_sub and not in_par:
                    opts.append(("sub", 1.2))
            if ctx in ("top", "parallel_block"):
                opts.append(("seq", 1.5))
        k = weighted(rng, opts)
        if k == "gate":
            if self.twins and rng.random() < p["p_twin"]:
                return rng.choice(self.twins)
            g = self.anon_gate(params)
            if p["p_twin"] > 0 and len(self.twins) < 6:
                self.twins.append(g)
            return g
        if k == "call":
            return self.macro_call(params) or self.anon_gate(params)
        if k == "par":
            return ("parallel_block",) + tuple(self.block_items("parallel_block", depth + 1, params, in_sub, True))
        if k == "seq":
            return ("sequential_block",) + tuple(self.block_items("sequential_block", depth + 1, params, in_sub, in_par))
        if k == "loop":
            kind = "parallel_block" if (p["allow_par"] and rng.random() < 0.2) else "sequential_block"
            body = (kind,) + tuple(self.block_items(kind, depth + 1, params, in_sub, in_par or kind == "parallel_block"))
            return ("loop", self.count(params), body)
        if k == "sub":
            cnt = "" if rng.random() > p["p_sub_count"] else self.count(params, counts=(0, 1, 2, 3, 10, 300))
            return ("subcircuit_block", cnt) + tuple(self.block_items("sequential_block", depth + 1, params, True, in_par))
        raise ValueError(k)

    # -- whole programs ---------------------------------------------------------
    def program(self):
        """A valid, not necessarily executable, program over anonymous gates."""
        rng = self.rng
        self.gen_header()
        out = list(self.header)
        body = []
        nm = self.rint(self.p["n_macros"]) if self.p["allow_macros"] else 0
        nb = self.rint(self.p["body_len"])
        # macros may be interleaved with body statements at top level, but are defined before use
        slots = ["m"] * nm + ["b"] * nb
        if rng.random() < 0.6:
            slots.sort(key=lambda s: 0 if s == "m" else 1)
        else:
            rng.shuffle(slots)
        for s in slots:
            if s == "m":
                body.append(self.gen_macro())
            else:
                body.append(self.statement("top", 0))
        return ("circuit",) + tuple(out) + tuple(body)


# ---------------------------------------------------------------------------
# executable programs over the native gate set
# ---------------------------------------------------------------------------


class ExecGen(ProgGen):
    """Programs the emulator must accept: native gates, well-bracketed prepare/measure
    sections or subcircuit blocks, disjoint parallel branches, valid references."""

    def __init__(self, rng, **kw):
        d = dict(native=True, executable=True, wild_numbers=False, p_usepulses=0.0, p_hostile_names=0.0,
                 allow_reg_args=False, allow_empty_blocks=True, p_float_let=0.5)
        d.update(kw)
        super().__init__(rng, **d)
        self.used.update(gateset_sig.GATES)
        self.used.update(["prepare_all", "measure_all"])
        self.macro_info = {}  # name -> (nq params, n float params)
        self.index_macros = {}  # name -> (register-like name, n float params)
        self.reg_macros = {}  # name -> number of elements of its register parameter it touches
        self.section_macros = {}  # name -> number of parameters (first one is a qubit)
        self.shadowed_lets = set()  # let names that an earlier macro uses as a parameter name

    def gen_index_macro(self):
        """Macro whose integer parameter indexes a register or alias: `macro pick k t { Rx reg[k] t }`."""
        rng = self.rng
        name = self.fresh(MACRO_NAMES, "mc")
        reg = rng.choice(list(self.elems))
        pool = [n for n in PARAM_NAMES + ["k", "i"] if n != reg]
        kname = rng.choice(pool)
        bound_lets = sorted({x for s in self.header if s[0] == "map" for x in s[3:] if isinstance(x, str) and "." not in x})
        if bound_lets and rng.random() < self.p["p_shadow"]:
            # the index parameter carries the name of a constant that some alias declaration uses as a bound: inside the
            # macro the name is the parameter, in the declaration it stays the constant
            kname = rng.choice(bound_lets)
            self.shadowed_lets.add(kname)
        fname = rng.choice([n for n in pool if n != kname])
        gname = rng.choice(["X", "H", "S", "T2", "Rx", "Ry", "Rz", "NOP"])
        has_f = gname in ("Rx", "Ry", "Rz")
        ref = ("array_item", reg, kname)
        g = ("gate", gname, ref) + ((fname,) if has_f else ())
        body = [g]
        if rng.random() < 0.4:
            body.append(("gate", rng.choice(["X", "H", "I_X"]), ref))
        params = (kname,) + ((fname,) if has_f else ())
        self.index_macros[name] = (reg, 1 if has_f else 0)
        self.macros[name] = ["idx"] + (["num"] if has_f else [])
        return ("macro", name) + params + (("sequential_block",) + tuple(body),)

    def gen_reg_macro(self):
        """Macro with a REGISTER parameter indexed by literals: `macro pair r { X r[0] ; H r[1] }`; call sites pass the
        register or aliases of it (each call site then reaches other qubits through the same statements)."""
        rng = self.rng
        name = self.fresh(MACRO_NAMES, "mc")
        pool = [n for n in PARAM_NAMES + ["r", "w"] if n not in self.elems]
        rname = rng.choice(pool)
        need = rng.choice([1, 1, 2]) if min(len(e) for e in self.elems.values()) >= 1 else 1
        body = []
        for i in range(need):
            body.append(("gate", rng.choice(["X", "H", "S", "T2", "I_X"]), ("array_item", rname, i)))
        if need == 2 and rng.random() < 0.5:
            body.append(("gate", "CX", ("array_item", rname, 0), ("array_item", rname, 1)))
        self.reg_macros[name] = need
        self.macros[name] = ["reg"]
        return ("macro", name, rname, ("sequential_block",) + tuple(body))

    def gen_exec_macro(self):
        """Macro whose body acts only on its qubit parameters (so that calls in parallel
        blocks are disjoint when their arguments are) plus numeric parameters."""
        rng = self.rng
        if self.elems and rng.random() < 0.3:
            return self.gen_index_macro()
        if self.elems and rng.random() < self.p["p_reg_macro"]:
            return self.gen_reg_macro()
        if self.macro_info and rng.random() < self.p.get("p_forward", 0.12):
            # a macro that only hands its parameters on to an earlier macro, in a block of either kind
            inner = rng.choice(sorted(self.macro_info))
            mq, mf = self.macro_info[inner]
            name = self.fresh(MACRO_NAMES, "mc")
            names = []
            for _ in range(mq + mf):
                names.append(rng.choice([n for n in PARAM_NAMES if n not in names][:6]))
            qs = names[:mq]
            rng.shuffle(qs)
            kind = "parallel_block" if rng.random() < 0.5 else "sequential_block"
            self.macro_info[name] = (mq, mf)
            self.macros[name] = ["q"] * mq + ["num"] * mf
            return ("macro", name) + tuple(names) + ((kind, ("gate", inner) + tuple(qs) + tuple(names[mq:])),)
        name = self.fresh(MACRO_NAMES, "mc")
        nqp = rng.choice([1, 1, 2, 2, 3])
        nqp = min(nqp, self.regsize)
        nfp = rng.choice([0, 0, 1, 2])
        pool = list(PARAM_NAMES)
        if rng.random() < self.p["p_shadow"]:
            pool = [n for n in list(self.lets) + list(self.elems) + list(self.single) if "." not in n] + pool
        names = []
        for _ in range(nqp + nfp):
            c = [n for n in pool if n not in names]
            names.append(rng.choice(c[:5]))
        qparams = names[:nqp]
        fparams = names[nqp:]
        shadow = set(names)

        def mgate(avail):
            gnames = [n for n in gateset_sig.GATES if gateset_sig.nq(n) <= len(avail)]
            cands = gnames + [m for m, (mq, mf) in self.macro_info.items() if mq <= len(avail)] * 2
            g = rng.choice(cands)
            if g in self.macro_info:
                mq, mf = self.macro_info[g]
                qs = rng.sample(avail, mq)
                fs = [rng.choice(fparams) if (fparams and rng.random() < 0.6) else self._angle_not(shadow) for _ in range(mf)]
                return ("gate", g) + tuple(qs) + tuple(fs), set(qs)
            sig = gateset_sig.GATES[g]
            qs = rng.sample(avail, gateset_sig.nq(g))
            args = []
            qi = 0
            for _pn, kind in sig:
                if kind == "q":
                    args.append(qs[qi])
                    qi += 1
                elif kind == "f":
                    args.append(rng.choice(fparams) if (fparams and rng.random() < 0.6) else self._angle_not(shadow))
                else:
                    args.append(rng.randint(-3, 8))
            return ("gate", g) + tuple(args), set(qs)

        def mblock(kind, avail, depth):
            n = rng.randint(0 if depth else 1, 3)
            items = []
            if kind == "parallel_block":
                left = list(avail)
                rng.shuffle(left)
                for _ in range(n):
                    if not left:
                        break
                    take = rng.randint(1, min(len(left), 2))
                    mine, left = left[:take], left[take:]
                    if depth < 2 and rng.random() < 0.3:
                        items.append(mblock("sequential_block", mine, depth + 1))
                    else:
                        items.append(mgate(mine)[0])
            else:
                for _ in range(n):
                    r = rng.random()
                    if depth < 2 and r < 0.15 and len(avail) > 1:
                        items.append(mblock("parallel_block", avail, depth + 1))
                    elif depth < 2 and r < 0.3:
                        items.append(("loop", self.hostile_count(shadow), mblock("sequential_block", avail, depth + 1)))
                    else:
                        g1 = mgate(avail)[0]
                        items.append(g1)
                        if g1[1] in self.macro_info and rng.random() < 0.5:
                            # the same inner macro called again right away, with other arguments
                            mq, mf = self.macro_info[g1[1]]
                            for _r in range(rng.choice([1, 1, 2])):
                                qs = rng.sample(avail, mq)
                                fs = [rng.choice(fparams) if (fparams and rng.random() < 0.5) else self._angle_not(shadow) for _ in range(mf)]
                                items.append(("gate", g1[1]) + tuple(qs) + tuple(fs))
            return (kind,) + tuple(items)

        kind = "parallel_block" if (nqp > 1 and rng.random() < 0.2) else "sequential_block"
        body = mblock(kind, qparams, 0)
        self.shadowed_lets |= shadow & set(self.lets)
        self.macro_info[name] = (nqp, nfp)
        self.macros[name] = ["q"] * nqp + ["num"] * nfp
        return ("macro", name) + tuple(names) + (body,)

    def hostile_count(self, shadow):
        """Loop count for a macro body: prefer a let that an *earlier* macro shadows with a parameter
        (but this macro does not), so that per-macro bookkeeping of names is exercised."""
        rng = self.rng
        c = [n for n in self.shadowed_lets if n in self.int_lets and n not in shadow and self.lets[n] <= 3]
        if c and rng.random() < 0.6:
            return rng.choice(c)
        cnt = self.count()
        if isinstance(cnt, str) and cnt in shadow:
            cnt = self.lets[cnt]
        return cnt

    def gen_section_macro(self):
        """Macro holding whole prepare/measure sections (possibly in loops with let-valued counts);
        its parameters may shadow lets.  Callable only where a section may stand."""
        rng = self.rng
        name = self.fresh(MACRO_NAMES, "sm")
        pool = list(PARAM_NAMES)
        if rng.random() < max(self.p["p_shadow"], 0.5):
            pool = [n for n in list(self.lets) if "." not in n] + pool
        qp = rng.choice(pool[:4] if rng.random() < 0.7 else pool)
        extra = [n for n in pool if n != qp]
        params = [qp] + ([rng.choice(extra)] if (extra and rng.random() < 0.4) else [])
        shadow = set(params)

        def sec():
            g = [("gate", rng.choice(["X", "H", "S"]), qp) for _ in range(rng.randint(0, 2))]
            if rng.random() < 0.6:
                return [("subcircuit_block", "") + tuple(g)]
            return [("gate", "prepare_all")] + g + [("gate", "measure_all")]

        items = []
        for _ in range(rng.randint(1, 2)):
            if rng.random() < 0.6:
                cnt = self.hostile_count(shadow)
                items.append(("loop", cnt, ("sequential_block",) + tuple(sec())))
            else:
                items.extend(sec())
        self.shadowed_lets |= shadow & set(self.lets)
        self.section_macros[name] = len(params)
        self.macros[name] = ["q"] + ["num"] * (len(params) - 1)
        return ("macro", name) + tuple(params) + (("sequential_block",) + tuple(items),)

    def _angle_not(self, shadow):
        a = self.angle_native()
        while isinstance(a, str) and a in shadow:
            a = self.angle_native()
        return a

    def exec_gate(self, avail):
        """native gate or macro call on a subset of avail; returns (stmt, used set)."""
        rng = self.rng
        if self.index_macros and rng.random() < 0.2:
            m = rng.choice(list(self.index_macros))
            reg, mf = self.index_macros[m]
            cands = [(i, ph) for i, ph in enumerate(self.elems[reg]) if ph in avail]
            if cands:
                i, ph = rng.choice(cands)
                args = [self.ioi(i, self.p["p_let_index"])] + [self.angle_native() for _ in range(mf)]
                return ("gate", m) + tuple(args), {ph}
        if self.reg_macros and rng.random() < 0.25:
            m = rng.choice(list(self.reg_macros))
            need = self.reg_macros[m]
            # any register / alias whose first `need` elements are available here
            cands = [r for r, els in self.elems.items() if len(els) >= need and all(ph in avail for ph in els[:need])
                     and len(set(els[:need])) == need]
            if cands:
                r = rng.choice(cands)
                return ("gate", m, r), set(self.elems[r][:need])
        if self.macro_info and rng.random() < 0.3:
            cands = [m for m, (mq, mf) in self.macro_info.items() if mq <= len(avail)]
            if cands:
                m = rng.choice(cands)
                mq, mf = self.macro_info[m]
                qs = rng.sample(avail, mq)
                args = [self.qref_for(q) for q in qs] + [self.angle_native() for _ in range(mf)]
                return ("gate", m) + tuple(args), set(qs)
        return self.native_gate(avail)

    def exec_block(self, kind, avail, depth):
        """Block of gates (no prepare/measure) over physical qubits `avail`; returns (stmt, used)."""
        rng = self.rng
        n = rng.randint(0, 4) if self.p["allow_empty_blocks"] else rng.randint(1, 4)
        items = []
        used = set()
        if kind == "parallel_block":
            left = list(avail)
            rng.shuffle(left)
            for _ in range(n):
                if not left:
                    break
                take = rng.randint(1, min(len(left), 3))
                mine, left = left[:take], left[take:]
                if self.p["p_overlap"] and rng.random() < self.p["p_overlap"]:
                    # hostile: let this branch also reach qubits given to other branches
                    mine = mine + [q for q in avail if q not in mine][: rng.randint(1, 2)]
                if depth < self.p["max_depth"] and rng.random() < 0.35:
                    st, u = self.exec_block("sequential_block", mine, depth + 1)
                else:
                    st, u = self.exec_gate(mine)
                items.append(st)
                used |= u
        else:
            for _ in range(n):
                st, u = self.exec_stmt(avail, depth)
                items.append(st)
                used |= u
        return (kind,) + tuple(items), used

    def exec_stmt(self, avail, depth):
        rng = self.rng
        r = rng.random()
        if depth < self.p["max_depth"]:
            if r < 0.15 and self.p["allow_par"]:
                return self.exec_block("parallel_block", avail, depth + 1)
            if r < 0.3 and self.p["allow_loop"]:
                kind = "parallel_block" if rng.random() < 0.15 else "sequential_block"
                b, u = self.exec_block(kind, avail, depth + 1)
                return ("loop", self.count(), b), u
        return self.exec_gate(avail)

    def section(self, depth):
        """One prepare ... measure section as a list of statements (sequential context)."""
        rng = self.rng
        avail = self.all_phys()
        if self.p["allow_sub"] and rng.random() < 0.4:
            n = rng.randint(0, 4)
            items = [self.exec_stmt(avail, depth + 1)[0] for _ in range(n)]
            cnt = "" if rng.random() > self.p["p_sub_count"] else self.count(counts=(1, 2, 3, 10))
            return [("subcircuit_block", cnt) + tuple(items)]
        n = rng.randint(0, 4)
        items = [self.exec_stmt(avail, depth)[0] for _ in range(n)]
        return [("gate", "prepare_all")] + items + [("gate", "measure_all")]

    def sections(self, depth, n):
        rng = self.rng
        out = []
        for _ in range(n):
            r = rng.random()
            if depth < self.p["max_depth"] and r < 0.3 and self.p["allow_loop"]:
                inner = self.sections(depth + 1, rng.randint(1, 2))
                out.append(("loop", self.count(), ("sequential_block",) + tuple(inner)))
            elif depth < self.p["max_depth"] and r < 0.4 and depth == 0:
                inner = self.sections(depth + 1, rng.randint(1, 2))
                out.append(("sequential_block",) + tuple(inner))
            elif self.section_macros and r < 0.55:
                m = rng.choice(list(self.section_macros))
                args = [self.qref_for(rng.choice(self.all_phys()))] + [self.angle_native() for _ in range(self.section_macros[m] - 1)]
                out.append(("gate", m) + tuple(args))
            else:
                out.extend(self.section(depth))
        return out

    def program(self):
        rng = self.rng
        self.gen_header()
        out = list(self.header)
        body = []
        if self.p["allow_macros"]:
            for _ in range(self.rint(self.p["n_macros"])):
                body.append(self.gen_section_macro() if (self.p["allow_sub"] and rng.random() < self.p["p_section_macro"]) else self.gen_exec_macro())
        body.extend(self.sections(0, self.rint(self.p["body_len"])))
        return ("circuit",) + tuple(out) + tuple(body)
