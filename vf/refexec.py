"""Reference executor on fully expanded meaning trees (macros expanded, lets evaluated,
aliases resolved, subcircuit blocks spelled prepare_all ... measure_all).

* flat_scan      acceptance rules of C12, transcribed from the property statement
* overlap        parallel-disjointness scan of C13 (used-qubit sets per branch)
* visits         the sequence of subcircuit visits of the unrolled program (C08)
* sub_state      the state of each subcircuit: tensor-contraction simulation with
                 numpy.tensordot (axis i = qubit i; gate matrix index bit j <-> the gate's
                 j-th qubit argument), flattened little-endian -- a different algorithm
                 from the emulator's bit-twiddling sparse multiply (C03)
Nothing here imports jaqalpaq.
"""
import numpy as np

from . import gateset_sig


class Reject(Exception):
    def __init__(self, rule, where=None):
        super().__init__(rule)
        self.rule = rule
        self.where = where


class Node:
    __slots__ = ("kind", "name", "args", "count", "items", "id", "parent")

    def __init__(self, kind, **kw):
        self.kind = kind
        self.name = kw.get("name")
        self.args = kw.get("args")
        self.count = kw.get("count")
        self.items = kw.get("items", [])
        self.id = None
        self.parent = None


class Program:
    """Tree with identities: every node gets an id in flat (textual) order."""

    def __init__(self, tree, nqubits, prepare="prepare_all", measure="measure_all", variant="A"):
        self.variant = variant
        self.n = nqubits
        self.p_gate = prepare
        self.m_gate = measure
        self.nodes = []
        self.root = self._build(tree, None)
        self.leaves = [x for x in self.nodes if x.kind == "gate"]

    def _build(self, t, parent):
        k = t[0]
        if k == "gate":
            nd = Node("gate", name=t[1], args=t[2])
        elif k in ("seq", "par"):
            nd = Node(k)
        elif k == "loop":
            nd = Node("loop", count=t[1])
        elif k == "sub":
            raise ValueError("subcircuit blocks must be expanded before execution")
        else:
            raise ValueError("bad tree node %r" % (k,))
        nd.id = len(self.nodes)
        nd.parent = parent
        self.nodes.append(nd)
        if k in ("seq", "par"):
            nd.items = [self._build(x, nd) for x in t[1]]
        elif k == "loop":
            nd.items = [self._build(t[2], nd)]
        return nd

    # -- flat order -----------------------------------------------------------
    def flat(self, nd=None):
        nd = nd or self.root
        if nd.kind == "gate":
            yield nd
        else:
            for x in nd.items:
                yield from self.flat(x)

    def loops_of(self, nd, only_repeating=False):
        out = []
        p = nd.parent
        while p is not None:
            if p.kind == "loop" and not (only_repeating and p.count == 1):
                out.append(p.id)
            p = p.parent
        return tuple(reversed(out))

    # -- C12 ------------------------------------------------------------------
    def flat_scan(self):
        """Returns {'subs': [(prepare leaf, measure leaf)], 'trailing_gates': bool} or raises Reject."""
        subs = []
        open_p = None
        closed_in = {}  # measure leaf id -> prepare leaf

        for leaf in self.flat():
            if leaf.name == self.p_gate:
                open_p = leaf
            elif leaf.name == self.m_gate:
                if open_p is None:
                    raise Reject("measure-without-prepare", leaf.id)
                subs.append((open_p, leaf))
                open_p = None
            else:
                if open_p is None:
                    raise Reject("gate-outside-subcircuit", leaf.id)
        # rule 3: no repeating loop contains a measure closing a subcircuit opened before
        # the loop body began
        for p, m in subs:
            lp = set(self.loops_of(p))
            for lid in self.loops_of(m):
                loop = self.nodes[lid]
                if loop.count > 1 and lid not in lp:
                    raise Reject("measure-in-loop-closes-earlier-prepare", m.id)
        trailing_gates = False
        if open_p is not None:
            after = False
            for leaf in self.flat():
                if leaf is open_p:
                    after = True
                elif after:
                    trailing_gates = True
        return {"subs": subs, "trailing_gates": trailing_gates, "trailing_prepare": open_p is not None}

    def straddling(self, subs):
        """Indices of subcircuits whose prepare and measure are not in the same loop nest
        (loops with count 1 read as their body)."""
        out = []
        for i, (p, m) in enumerate(subs):
            if self.loops_of(p, True) != self.loops_of(m, True):
                out.append(i)
        return out

    # -- C13 ------------------------------------------------------------------
    def used(self, nd):
        if nd.kind == "gate":
            base = nd.name[: -len(gateset_sig.STRETCH_SUFFIX)] if nd.name.endswith(gateset_sig.STRETCH_SUFFIX) else nd.name
            if nd.name in (self.p_gate, self.m_gate) or base in gateset_sig.BUSY:  # a stretched busy gate is a busy gate
                return set(range(self.n))
            if nd.name.startswith("I_"):
                return set()
            return {a[2] for a in nd.args if isinstance(a, tuple) and a[0] == "q"}
        u = set()
        for x in nd.items:
            u |= self.used(x)
        return u

    def overlap(self):
        """First parallel block (flat order) with two branches whose used-qubit sets intersect."""
        for nd in self.nodes:
            if nd.kind == "par":
                seen = set()
                for x in nd.items:
                    u = self.used(x)
                    if u & seen:
                        return nd.id, sorted(u & seen)
                    seen |= u
        return None

    def repeated_qubit_gate(self):
        for leaf in self.leaves:
            qs = [a[2] for a in leaf.args if isinstance(a, tuple) and a[0] == "q"]
            if len(set(qs)) != len(qs):
                return leaf.id
        return None

    # -- unrolling ---------------------------------------------------------------
    def unroll(self, nd=None, force_one=()):
        nd = nd or self.root
        if nd.kind == "gate":
            yield nd
        elif nd.kind == "loop":
            n = 1 if nd.id in force_one else nd.count
            for _ in range(n):
                yield from self.unroll(nd.items[0], force_one)
        else:
            for x in nd.items:
                yield from self.unroll(x, force_one)

    def unrolled_size(self, nd=None):
        nd = nd or self.root
        if nd.kind == "gate":
            return 1
        if nd.kind == "loop":
            return 1 + max(nd.count, 0) * self.unrolled_size(nd.items[0])
        return 1 + sum(self.unrolled_size(x) for x in nd.items)

    def visits(self, subs):
        """Execution-order sequence of subcircuit indices (one per executed measure that
        closes an open prepare), attributing by measure leaf."""
        by_m = {m.id: i for i, (p, m) in enumerate(subs)}
        out = []
        open_p = False
        for leaf in self.unroll():
            if leaf.name == self.p_gate:
                open_p = True
            elif leaf.name == self.m_gate:
                if open_p and leaf.id in by_m:
                    out.append(by_m[leaf.id])
                open_p = False
        return out

    # -- simulation -----------------------------------------------------------------
    def apply(self, st, leaf, log=None):
        name = leaf.name
        if name.startswith("I_"):
            return st
        qs = [a[2] for a in leaf.args if isinstance(a, tuple) and a[0] == "q"]
        cl = [a for a in leaf.args if not isinstance(a, tuple)]
        U = gateset_sig.unitary(name, cl, self.variant)
        if U is None:
            return st
        if log is not None:
            if name.endswith(gateset_sig.STRETCH_SUFFIX):
                # a stretched variant evaluates its parent's unitary on the parent's arguments
                log.append((name[: -len(gateset_sig.STRETCH_SUFFIX)], tuple(cl[:-1])))
            else:
                log.append((name, tuple(cl)))
        k = len(qs)
        if len(set(qs)) != k:
            raise Reject("gate-on-repeated-qubit", leaf.id)
        Ut = U.reshape((2,) * (2 * k))
        # U index = sum_j bit_j << j ; reshape puts the most significant bit first:
        # out axes p=0..k-1 <-> bit k-1-p ; in axes likewise
        in_axes = [qs[k - 1 - p] for p in range(k)]
        st = np.tensordot(Ut, st, axes=(list(range(k, 2 * k)), in_axes))
        rest = [q for q in range(self.n) if q not in qs]
        cur = in_axes + rest
        return st.transpose([cur.index(q) for q in range(self.n)])

    def zero(self):
        st = np.zeros((2,) * self.n, dtype=complex)
        st[(0,) * self.n] = 1
        return st

    def flatten(self, st):
        """axis i = qubit i  ->  vector index with bit i = qubit i (little-endian)."""
        return st.transpose(*reversed(range(self.n))).reshape(-1).copy()

    def sub_state(self, subs, i, log=None):
        """State of subcircuit i just before its measure: ancestors of its prepare are run
        exactly once, loops inside the section are unrolled."""
        p, m = subs[i]
        force = set(self.loops_of(p)) | set(self.loops_of(m))
        st = None
        mylog = []
        for leaf in self.unroll(force_one=force):
            if leaf is p:
                st = self.zero()
                mylog = []
            elif leaf is m:
                if st is not None:
                    if log is not None:
                        log.extend(mylog)
                    return self.flatten(st)
            elif leaf.name == self.p_gate:
                st = None if st is None else st  # another prepare inside the section cannot happen (flat pairing)
            elif leaf.name == self.m_gate:
                pass
            elif st is not None:
                st = self.apply(st, leaf, mylog)
        return None


def bits(k, n):
    """String of n characters, qubit 0 leftmost = least significant bit of k."""
    return "".join("1" if (k >> i) & 1 else "0" for i in range(n))


def dense_check(prog, subs, i):
    """Independent second opinion for small registers: dense kron-embedded matrices."""
    n = prog.n
    p, m = subs[i]
    force = set(prog.loops_of(p)) | set(prog.loops_of(m))
    vec = None
    for leaf in prog.unroll(force_one=force):
        if leaf is p:
            vec = np.zeros(2 ** n, dtype=complex)
            vec[0] = 1
        elif leaf is m:
            return vec
        elif vec is not None and leaf.name not in (prog.p_gate, prog.m_gate):
            qs = [a[2] for a in leaf.args if isinstance(a, tuple) and a[0] == "q"]
            cl = [a for a in leaf.args if not isinstance(a, tuple)]
            U = gateset_sig.unitary(leaf.name, cl)
            if U is None:
                continue
            big = np.zeros((2 ** n, 2 ** n), dtype=complex)
            k = len(qs)
            for col in range(2 ** n):
                sub_in = sum(((col >> q) & 1) << j for j, q in enumerate(qs))
                rest = col
                for q in qs:
                    rest &= ~(1 << q)
                for sub_out in range(2 ** k):
                    row = rest
                    for j, q in enumerate(qs):
                        if (sub_out >> j) & 1:
                            row |= 1 << q
                    big[row, col] += U[sub_out, sub_in]
            vec = big @ vec
    return None
