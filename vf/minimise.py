"""Witness minimiser: greedy delta-debugging over program S-expressions.

`minimise(prog, still_fails, budget)` returns a program that is 1-minimal with respect to
the candidate moves below and for which `still_fails(prog)` is still True (the caller's
predicate re-runs the judge and compares the *failure clause*, so a candidate that becomes
invalid or fails differently is not accepted).
"""
from . import sx


def _children_start(s):
    k = s[0]
    if k in ("sequential_block", "parallel_block", "circuit"):
        return 1
    if k == "subcircuit_block":
        return 2
    return None


def candidates(s):
    """Yield smaller variants of node s (same node kind or a replacement statement)."""
    k = s[0]
    st = _children_start(s)
    if st is not None:
        n = len(s)
        # drop one child (later children first: uses come after definitions)
        for i in range(n - 1, st - 1, -1):
            yield s[:i] + s[i + 1:]
        # replace a child by a smaller variant of itself / hoist grandchildren
        for i in range(st, n):
            c = s[i]
            if not isinstance(c, tuple):
                continue
            for v in candidates(c):
                yield s[:i] + (v,) + s[i + 1:]
            # hoist: replace the child by its own children
            cst = _children_start(c)
            if cst is not None and k != "parallel_block":
                yield s[:i] + tuple(c[cst:]) + s[i + 1:]
            if c[0] == "loop":
                inner = c[2]
                yield s[:i] + tuple(inner[1:]) + s[i + 1:]
        if k == "subcircuit_block" and s[1] != "":
            yield (k, "") + s[2:]
    elif k == "loop":
        for v in candidates(s[2]):
            yield ("loop", s[1], v)
        if s[1] not in (0, 1, 2):
            yield ("loop", 2, s[2])
    elif k == "macro":
        for v in candidates(s[-1]):
            yield s[:-1] + (v,)
    elif k == "gate":
        for i in range(2, len(s)):
            a = s[i]
            if isinstance(a, float) and a not in (0.5,):
                yield s[:i] + (0.5,) + s[i + 1:]
            if isinstance(a, int) and not isinstance(a, bool) and a not in (0, 1):
                yield s[:i] + (1,) + s[i + 1:]
    elif k == "let":
        v = s[2]
        if isinstance(v, float) and v != 0.5:
            yield ("let", s[1], 0.5)
        if isinstance(v, int) and v not in (0, 1, 2):
            yield ("let", s[1], 1)
    elif k == "map" and len(s) == 6:
        for j in (3, 4, 5):
            if s[j] is not None:
                yield s[:j] + (None,) + s[j + 1:]


def _subst(s, fn):
    """Apply fn to every node bottom-up; fn returns a replacement or None."""
    if not isinstance(s, tuple):
        return s
    t = tuple(_subst(x, fn) if isinstance(x, tuple) else x for x in s)
    r = fn(t)
    return t if r is None else r


def simplifications(prog):
    """Semantic simplification moves that need program context: literal values instead of
    lets, the fundamental register instead of aliases, literal register size."""
    lets = {s[1]: s[2] for s in prog[1:] if s[0] == "let"}
    regs = [s for s in prog[1:] if s[0] == "register"]
    reg = regs[0][1] if regs else None
    positions = []

    def collect(s, path):
        if not isinstance(s, tuple):
            return
        positions.append(path)
        for i, x in enumerate(s):
            collect(x, path + (i,))

    collect(prog, ())

    def get(s, path):
        for i in path:
            s = s[i]
        return s

    def put(s, path, v):
        if not path:
            return v
        return s[:path[0]] + (put(s[path[0]], path[1:], v),) + s[path[0] + 1:]

    for path in positions:
        n = get(prog, path)
        k = n[0]
        if k == "register" and isinstance(n[2], str) and n[2] in lets:
            yield put(prog, path, ("register", n[1], lets[n[2]]))
        elif k == "map":
            for j in range(3, len(n)):
                if isinstance(n[j], str) and n[j] in lets:
                    yield put(prog, path, n[:j] + (lets[n[j]],) + n[j + 1:])
        elif k == "array_item":
            if isinstance(n[2], str) and n[2] in lets:
                yield put(prog, path, ("array_item", n[1], lets[n[2]]))
            if reg is not None and n[1] != reg:
                yield put(prog, path, ("array_item", reg, 0))
                yield put(prog, path, ("array_item", reg, n[2]))
            if n[2] != 0 and not isinstance(n[2], str):
                yield put(prog, path, ("array_item", n[1], 0))
        elif k == "gate":
            for j in range(2, len(n)):
                a = n[j]
                if isinstance(a, str) and a in lets:
                    yield put(prog, path, n[:j] + (lets[a],) + n[j + 1:])
                if isinstance(a, str) and reg is not None:
                    yield put(prog, path, n[:j] + (("array_item", reg, 0),) + n[j + 1:])
                if not isinstance(a, (int,)) or a != 1:
                    yield put(prog, path, n[:j] + (1,) + n[j + 1:])
            if len(n) > 2:
                yield put(prog, path, n[:-1])
        elif k in ("loop",) and isinstance(n[1], str) and n[1] in lets:
            yield put(prog, path, ("loop", lets[n[1]], n[2]))
        elif k == "subcircuit_block" and isinstance(n[1], str) and n[1] in lets:
            yield put(prog, path, (k, lets[n[1]]) + n[2:])
        elif k == "macro" and len(n) > 3:
            for j in range(2, len(n) - 1):
                yield put(prog, path, n[:j] + n[j + 1:])


def all_candidates(prog):
    yield from candidates(prog)
    yield from simplifications(prog)


def minimise(prog, still_fails, budget=300):
    prog = sx.norm(prog)
    spent = 0
    improved = True
    while improved and spent < budget:
        improved = False
        for cand in all_candidates(prog):
            spent += 1
            if spent > budget:
                break
            try:
                ok = still_fails(cand)
            except Exception:
                ok = False
            if ok:
                prog = cand
                improved = True
                break
    return prog
