"""The program model: Jaqal programs as S-expressions (nested tuples) in the shape that
`jaqalpaq.parser.parser.parse_to_sexpression` documents and `jaqalpaq.core.build` accepts.

    ("circuit", stmt...)
    ("usepulses", "a.b", "*")     ("let", name, number)      ("register", name, int|letname)
    ("map", name, src) | ("map", name, src, index) | ("map", name, src, start, stop, step)   (None = omitted)
    ("macro", name, param..., block)
    ("gate", name, arg...)        arg = number | identifier | ("array_item", identifier, int|identifier)
    ("loop", count, block)        ("sequential_block", stmt...)   ("parallel_block", stmt...)
    ("subcircuit_block", ""|count, stmt...)

plus renderers: Jaqal text (canonical or with a layout RNG), and helpers.
Nothing in this module imports jaqalpaq.
"""
import math

HEADER = ("usepulses", "let", "register", "map")
BLOCKS = ("sequential_block", "parallel_block", "subcircuit_block")


def norm(x):
    """Nested lists/deques/Identifier tuples -> plain nested tuples; Identifier -> dotted str."""
    if isinstance(x, str) or isinstance(x, (int, float)) or x is None:
        return x
    if type(x).__name__ == "Identifier":
        return ".".join(str(v) for v in x)
    if isinstance(x, (list, tuple)) or type(x).__name__ == "deque":
        return tuple(norm(v) for v in x)
    if x is all:
        return "*"
    return x


def unnorm(x):
    """tuples -> lists, for json round trips (json gives lists) keep symmetrical: lists -> tuples."""
    if isinstance(x, list):
        return tuple(unnorm(v) for v in x)
    return x


def same_number(a, b):
    if isinstance(a, bool) or isinstance(b, bool):
        return a is b
    if isinstance(a, (int, float)) and isinstance(b, (int, float)):
        if isinstance(a, float) and isinstance(b, float) and a == 0 and b == 0:
            return True
        return a == b
    return False


def sx_equal(a, b):
    """Structural equality with numbers compared by value but int/float kind kept distinct
    only where it matters to nobody: numbers compare by value."""
    if isinstance(a, tuple) and isinstance(b, tuple):
        return len(a) == len(b) and all(sx_equal(x, y) for x, y in zip(a, b))
    if isinstance(a, (int, float)) and not isinstance(a, bool) and isinstance(b, (int, float)) and not isinstance(b, bool):
        return a == b
    return a == b and type(a) is type(b)


def sx_equal_strict(a, b):
    """Like sx_equal but an int never equals a float (token kinds INT vs NUMBER)."""
    if isinstance(a, tuple) and isinstance(b, tuple):
        return len(a) == len(b) and all(sx_equal_strict(x, y) for x, y in zip(a, b))
    if isinstance(a, float) and isinstance(b, float):
        return a == b or (a != a and b != b)
    return type(a) is type(b) and a == b


# ---------------------------------------------------------------------------
# number formatting for *input* text (always lexes as one INT or NUMBER token)
# ---------------------------------------------------------------------------


def fmt_number(v, rng=None):
    if isinstance(v, bool):
        raise TypeError(v)
    if isinstance(v, int):
        s = str(v)
        if rng is not None and v >= 0 and rng.random() < 0.05:
            s = "+" + s
        return s
    if not math.isfinite(v):
        raise ValueError(v)
    s = repr(v)
    if "e" in s or "E" in s:
        mant, exp = s.lower().split("e")
        if "." not in mant:
            mant += ".0"
        s = mant + "e" + exp
    elif "." not in s:
        s += ".0"
    assert float(s) == v, (s, v)
    return s


# ---------------------------------------------------------------------------
# token stream
# ---------------------------------------------------------------------------
# items: ("t", text)   token
#        ("sep", "s"|"p")  mandatory separator  ("pad", "s"|"p") optional padding
#        ("glue",)         the next token may be written with no space before it


def _arg_tokens(a, rng):
    if isinstance(a, tuple):
        assert a[0] == "array_item", a
        idx = a[2]
        return [("t", str(a[1])), ("glue",), ("t", "["), ("glue",), ("t", idx if isinstance(idx, str) else fmt_number(idx)),
                ("glue",), ("t", "]")]
    if isinstance(a, str):
        return [("t", a)]
    return [("t", fmt_number(a, rng))]


def _ioi(v):
    return v if isinstance(v, str) else fmt_number(v)


def _stmt_tokens(s, rng, kind_ctx):
    k = s[0]
    out = []
    if k == "gate":
        out.append(("t", s[1]))
        for a in s[2:]:
            out.extend(_arg_tokens(a, rng))
    elif k == "sequential_block":
        out.append(("t", "{"))
        out.extend(_body_tokens(s[1:], rng, "s"))
        out.append(("t", "}"))
    elif k == "parallel_block":
        out.append(("t", "<"))
        out.extend(_body_tokens(s[1:], rng, "p"))
        out.append(("t", ">"))
    elif k == "subcircuit_block":
        out.append(("t", "subcircuit"))
        if s[1] != "":
            out.append(("t", _ioi(s[1])))
        out.append(("t", "{"))
        out.extend(_body_tokens(s[2:], rng, "s"))
        out.append(("t", "}"))
    elif k == "loop":
        out.append(("t", "loop"))
        out.append(("t", _ioi(s[1])))
        out.extend(_stmt_tokens(s[2], rng, None))
    elif k == "macro":
        out.append(("t", "macro"))
        for p in s[1:-1]:
            out.append(("t", p))
        out.extend(_stmt_tokens(s[-1], rng, None))
    elif k == "let":
        out += [("t", "let"), ("t", s[1]), ("t", fmt_number(s[2], rng))]
    elif k == "register":
        out += [("t", "register"), ("t", s[1]), ("glue",), ("t", "["), ("glue",), ("t", _ioi(s[2])), ("glue",), ("t", "]")]
    elif k == "usepulses":
        out += [("t", "from"), ("t", s[1]), ("t", "usepulses"), ("t", "*")]
    elif k == "map":
        out += [("t", "map"), ("t", s[1]), ("t", s[2])]
        if len(s) == 4:
            out += [("glue",), ("t", "["), ("glue",), ("t", _ioi(s[3])), ("glue",), ("t", "]")]
        elif len(s) == 6:
            out += [("glue",), ("t", "[")]
            if s[3] is not None:
                out += [("glue",), ("t", _ioi(s[3]))]
            out += [("glue",), ("t", ":")]
            if s[4] is not None:
                out += [("glue",), ("t", _ioi(s[4]))]
            if s[5] is not None:
                out += [("glue",), ("t", ":"), ("glue",), ("t", _ioi(s[5]))]
            out += [("glue",), ("t", "]")]
    else:
        raise ValueError("cannot render %r" % (s,))
    return out


def _body_tokens(stmts, rng, kind):
    out = [("pad", kind)]
    for i, st in enumerate(stmts):
        if i:
            out.append(("sep", kind))
        out.extend(_stmt_tokens(st, rng, kind))
    out.append(("pad", kind))
    return out


def token_stream(prog, rng=None):
    assert prog[0] == "circuit"
    return _body_tokens(prog[1:], rng, "s")


_COMMENT_BODIES = [
    " comment ", "", " X q[0] ", " { ", " } | < ", " // nested line ", " * / ", " loop 2 { g } ", "*", " let a 1 ", "/",
    " multi\n line \n", "\n", " register q[9] ",
    # characters that some line-splitting or character-class code treats specially; inside a comment they mean nothing
    " page\x0cbreak X q[0] ", " vt\x0b ", " fs\x1c gs\x1d rs\x1e let a 2 ", " caf\u00e9 \u0663\uff12 ", " nel\x85 ls\u2028 X q[1] ",
]
_LINE_BODIES = ["", " trailing", " X q[1]", " /* not a block", " */", " } ", "//", " ; | ",
                " page\x0cX q[0]", " \x0b\x1c\x1d\x1e let zz 1", " \u0663 caf\u00e9", " \x85 X q[1] \u2028 X q[0]"]


def to_text(prog, rng=None, comments=True):
    """Jaqal text of an S-expression.  rng=None gives the canonical layout (one statement
    per line); otherwise separators, padding, whitespace and comments are drawn from rng."""
    items = token_stream(prog, rng)
    out = []
    glue = False
    first = True

    def ws():
        if rng is None:
            return " "
        r = rng.random()
        if r < 0.7:
            return " "
        if r < 0.8:
            return "\t"
        if r < 0.9:
            return "  "
        if comments and r < 0.97:
            return " /*" + rng.choice(_COMMENT_BODIES).replace("\n", " ") + "*/ "
        return " \t "

    def sep_text(kind, mandatory):
        bar = ";" if kind == "s" else "|"
        if rng is None:
            return "\n" if mandatory else ""
        n = rng.choice([1, 1, 1, 2, 3]) if mandatory else rng.choice([0, 0, 1, 1, 2])
        parts = []
        for _ in range(n):
            r = rng.random()
            if r < 0.45:
                parts.append("\n")
            elif r < 0.75:
                parts.append(bar)
            elif r < 0.85:
                parts.append(" \n\n")
            elif comments and r < 0.93:
                parts.append(" //" + rng.choice(_LINE_BODIES) + "\n")
            elif comments:
                c = rng.choice(_COMMENT_BODIES)
                # a block comment does not separate: keep a real separator next to it
                parts.append(" /*" + c + "*/ " + rng.choice(["\n", bar]))
            else:
                parts.append(bar + " ")
        return " ".join(parts) if parts else ""

    for it in items:
        if it[0] == "glue":
            glue = True
            continue
        if it[0] == "t":
            if not first:
                if glue and (rng is None or rng.random() < 0.7):
                    pass
                else:
                    out.append(ws())
            out.append(it[1])
            first = False
            glue = False
        elif it[0] == "sep":
            out.append(" " if rng is not None and rng.random() < 0.3 else "")
            out.append(sep_text(it[1], True))
            first = True
            glue = False
        elif it[0] == "pad":
            t = sep_text(it[1], False)
            if t:
                out.append(" " + t if rng is not None and rng.random() < 0.3 else t)
                first = True
            elif rng is None:
                first = True  # canonical: no space after opener
            glue = False
    text = "".join(out)
    if rng is None:
        text += "\n"
    elif rng.random() < 0.5:
        text += rng.choice(["\n", " ", "\n\n", " // end", " /* end */", ";"])
    return text


# ---------------------------------------------------------------------------
# traversal helpers
# ---------------------------------------------------------------------------


def walk(s):
    """Yield every statement-level node (pre-order)."""
    yield s
    k = s[0]
    if k == "circuit":
        for x in s[1:]:
            yield from walk(x)
    elif k in ("sequential_block", "parallel_block"):
        for x in s[1:]:
            yield from walk(x)
    elif k == "subcircuit_block":
        for x in s[2:]:
            yield from walk(x)
    elif k == "loop":
        yield from walk(s[2])
    elif k == "macro":
        yield from walk(s[-1])


def depth(s):
    k = s[0]
    if k in ("sequential_block", "parallel_block"):
        return 1 + max([depth(x) for x in s[1:]] or [0])
    if k == "subcircuit_block":
        return 1 + max([depth(x) for x in s[2:]] or [0])
    if k == "loop":
        return 1 + depth(s[2])
    if k == "macro":
        return depth(s[-1])
    if k == "circuit":
        return max([depth(x) for x in s[1:]] or [0])
    return 0


def features(prog):
    """Cheap feature histogram of a program (for evidence)."""
    f = {}

    def inc(k):
        f[k] = f.get(k, 0) + 1

    for n in walk(prog):
        inc("node:" + n[0])
        if n[0] == "gate":
            for a in n[2:]:
                if isinstance(a, tuple):
                    inc("arg:item")
                elif isinstance(a, str):
                    inc("arg:name")
                elif isinstance(a, float):
                    inc("arg:float")
                    if "e" in repr(a):
                        inc("arg:float-exp")
                else:
                    inc("arg:int")
        if n[0] == "loop":
            c = n[1]
            inc("loop:let" if isinstance(c, str) else "loop:%s" % ("0" if c == 0 else "1" if c == 1 else "n"))
        if n[0] == "subcircuit_block":
            inc("sub:nocount" if n[1] == "" else "sub:let" if isinstance(n[1], str) else "sub:int")
        if n[0] == "map":
            inc("map:%d" % len(n))
        if n[0] == "let":
            inc("let:float" if isinstance(n[2], float) else "let:int")
            if isinstance(n[2], float) and "e" in repr(n[2]):
                inc("let:float-exp")
    f["depth"] = depth(prog)
    return f


# ---------------------------------------------------------------------------
# legality of block nesting (the Jaqal grammar's rules, plus the builder's subcircuit rule)
# ---------------------------------------------------------------------------


def legal_nesting(prog):
    """True iff the program respects Jaqal's block nesting: header statements before body
    statements; a parallel block holds gates and sequential blocks; a sequential block (and
    a subcircuit) holds gates, parallel blocks, loops and subcircuits; loop and macro bodies
    are blocks; macros only at top level; no subcircuit inside a subcircuit or a parallel
    block (directly or indirectly)."""

    def ok(s, ctx, in_sub, in_par):
        k = s[0]
        if k == "gate":
            return True
        if k == "sequential_block":
            if ctx not in ("top", "par", "body"):
                return False
            return all(ok(x, "seq", in_sub, in_par) for x in s[1:])
        if k == "parallel_block":
            if ctx not in ("top", "seq", "body"):
                return False
            return all(ok(x, "par", in_sub, True) for x in s[1:])
        if k == "subcircuit_block":
            if ctx not in ("top", "seq") or in_sub or in_par:
                return False
            return all(ok(x, "seq", True, in_par) for x in s[2:])
        if k == "loop":
            if ctx not in ("top", "seq"):
                return False
            return s[2][0] in ("sequential_block", "parallel_block") and ok(s[2], "body", in_sub, in_par)
        if k == "macro":
            if ctx != "top":
                return False
            return s[-1][0] in ("sequential_block", "parallel_block") and ok(s[-1], "body", False, False)
        return False

    in_body = False
    for s in prog[1:]:
        if s[0] in HEADER:
            if in_body:
                return False
            continue
        in_body = True
        if not ok(s, "top", False, False):
            return False
    return True
