"""Identity-aware deep structural fingerprints of live objects and of process-global state.

fp(obj) walks the object graph reachable from obj and returns a hashable canonical
description: for every reachable object its type, its __dict__ entries (containers with
order), scalar values, and the aliasing structure (which fields point to the same object,
by first-visit numbering).  Two fingerprints taken before and after a call are equal iff
nothing reachable was mutated, rebound, reordered, added or removed.
"""
import types

_SCALARS = (int, float, complex, str, bytes, bool, type(None))


def fp(obj, max_nodes=200000):
    seen = {}
    out = []

    def visit(o):
        if isinstance(o, _SCALARS):
            if isinstance(o, float) and o != o:
                return ("nan",)
            return (type(o).__name__, o)
        if o is all:
            return ("all",)
        if isinstance(o, (types.FunctionType, types.BuiltinFunctionType, types.MethodType, type)):
            return ("callable", getattr(o, "__qualname__", repr(o)), id(o))
        oid = id(o)
        if oid in seen:
            return ("ref", seen[oid])
        n = seen[oid] = len(seen)
        if len(seen) > max_nodes:
            raise RuntimeError("fingerprint: object graph too large")
        slot = len(out)
        out.append(None)
        if isinstance(o, dict):
            body = ("dict", type(o).__name__, tuple((visit(k), visit(v)) for k, v in o.items()))
        elif isinstance(o, (list, tuple)):
            body = (type(o).__name__, tuple(visit(v) for v in o))
        elif isinstance(o, (set, frozenset)):
            body = (type(o).__name__, tuple(sorted(repr(visit(v)) for v in o)))
        elif isinstance(o, slice):
            body = ("slice", visit(o.start), visit(o.stop), visit(o.step))
        elif type(o).__module__ == "numpy":
            body = ("ndarray", getattr(o, "shape", None), o.tobytes() if hasattr(o, "tobytes") else repr(o))
        elif hasattr(o, "__dict__"):
            body = ("obj", type(o).__module__ + "." + type(o).__qualname__,
                    tuple((k, visit(v)) for k, v in o.__dict__.items()))
        elif hasattr(o, "__slots__"):
            body = ("slots", type(o).__qualname__, tuple((k, visit(getattr(o, k, None))) for k in o.__slots__))
        else:
            body = ("opaque", type(o).__qualname__, repr(o))
        out[slot] = (n, body)
        return ("ref", n)

    root = visit(obj)
    return (root, tuple(out))


def fp_diff(a, b):
    """Human-readable first difference between two fingerprints."""
    if a == b:
        return None
    ra, na = a
    rb, nb = b
    if len(na) != len(nb):
        msg = "node count %d -> %d" % (len(na), len(nb))
    else:
        msg = "same node count"
    for x, y in zip(na, nb):
        if x != y:
            return "%s; first differing node: %s  ->  %s" % (msg, _short(x), _short(y))
    return msg


def _short(x):
    s = repr(x)
    return s if len(s) < 400 else s[:400] + "..."


def fp_global():
    """Fingerprint of the process-global state that parsing / importing can touch."""
    import sys

    items = []
    try:
        import sly.yacc

        items.append(("YaccProduction", tuple(sorted(k for k in sly.yacc.YaccProduction.__dict__))))
    except Exception as ex:  # pragma: no cover
        items.append(("YaccProduction", repr(ex)))
    try:
        from jaqalpaq.parser import slyparse

        def cls_state(cls):
            d = []
            for k, v in sorted(cls.__dict__.items()):
                if k.startswith("__") and k.endswith("__"):
                    continue
                if isinstance(v, (types.FunctionType, staticmethod, classmethod, property)):
                    d.append((k, "fn"))
                elif isinstance(v, _SCALARS):
                    d.append((k, v))
                elif isinstance(v, (set, frozenset)):
                    d.append((k, tuple(sorted(map(repr, v)))))
                elif isinstance(v, (list, tuple, dict)):
                    d.append((k, len(v), hash(repr(v)[:20000])))
                else:
                    d.append((k, type(v).__name__, id(v)))
            return tuple(d)

        items.append(("JaqalLexer", cls_state(slyparse.JaqalLexer)))
        items.append(("JaqalParser", cls_state(slyparse.JaqalParser)))
        items.append(("monkeypatch", tuple(sorted(slyparse._monkeypatch_sly.__dict__.items()))))
        items.append(("turbo", slyparse._SLY_TURBO_WARNING))
    except Exception as ex:  # pragma: no cover
        items.append(("slyparse", repr(ex)))
    try:
        from jaqalpaq.core import branch

        items.append(("USE_EXPERIMENTAL_BRANCH", getattr(branch, "USE_EXPERIMENTAL_BRANCH", None)))
    except Exception as ex:
        items.append(("branch", repr(ex)))
    try:
        from jaqalpaq.qsyntax import qsyntax

        items.append(("QUsePulses", tuple(sorted((k, repr(v)[:80]) for k, v in qsyntax.QUsePulses.__dict__.items()
                                                 if not k.startswith("__") and not callable(v)
                                                 and not isinstance(v, (staticmethod, classmethod))))))
    except Exception as ex:
        items.append(("qsyntax", repr(ex)))
    try:
        from jaqalpaq.core.usepulses import UsePulsesStatement

        items.append(("UsePulsesStatement._gates", repr(UsePulsesStatement.__dict__.get("_gates"))))
    except Exception as ex:
        items.append(("usepulses", repr(ex)))
    # interpreter-wide settings a library call has to leave as it found them
    items.append(("recursionlimit", sys.getrecursionlimit()))
    items.append(("int_max_str_digits", getattr(sys, "get_int_max_str_digits", lambda: None)()))
    items.append(("sys.path", tuple(sys.path)))
    items.append(("modules", tuple(sorted(k for k in sys.modules if k.startswith(("jaqalpaq", "sly", "vfscratch"))))))
    return tuple(items)
