"""Thin access layer to the real library (looked up at call time, so that monitor wrappers
installed by rebinding are the ones that run)."""
import sys

from jaqalpaq.error import JaqalError


def _m(name):
    __import__(name)
    return sys.modules[name]


def parse(text, native=None, **kw):
    kw.setdefault("autoload_pulses", False)
    if native is not None:
        kw["inject_pulses"] = native
    return _m("jaqalpaq.parser.parser").parse_jaqal_string(text, **kw)


def parse_file(path, native=None, **kw):
    kw.setdefault("autoload_pulses", False)
    if native is not None:
        kw["inject_pulses"] = native
    return _m("jaqalpaq.parser.parser").parse_jaqal_file(path, **kw)


def parse_header(text):
    return _m("jaqalpaq.parser.parser").parse_jaqal_string_header(text)


def parse_file_header(path):
    return _m("jaqalpaq.parser.parser").parse_jaqal_file_header(path)


def parse_sexpr(text):
    return _m("jaqalpaq.parser.parser").parse_to_sexpression(text)


def build(sexpr, native=None, **kw):
    return _m("jaqalpaq.core.circuitbuilder").build(sexpr, inject_pulses=native, **kw)


def generate(c):
    return _m("jaqalpaq.generator.generator").generate_jaqal_program(c)


def expand_macros(c, **kw):
    return _m("jaqalpaq.core.algorithm.expand_macros").expand_macros(c, **kw)


def fill_in_let(c, override_dict=None):
    return _m("jaqalpaq.core.algorithm.fill_in_let").fill_in_let(c, override_dict=override_dict)


def fill_in_map(c):
    return _m("jaqalpaq.core.algorithm.fill_in_map").fill_in_map(c)


def expand_subcircuits(c, *a, **kw):
    return _m("jaqalpaq.core.algorithm.expand_subcircuits").expand_subcircuits(c, *a, **kw)


def unit_timing(c):
    return _m("jaqalpaq.core.algorithm.unit_timing").normalize_blocks_with_unitary_timing(c)


def used_qubits(x, context=None):
    return _m("jaqalpaq.core.algorithm.used_qubit_visitor").get_used_qubit_indices(x, context=context)


def run(c, **kw):
    return _m("jaqalpaq.run.run").run_jaqal_circuit(c, **kw)


def parse_output(c, out):
    return _m("jaqalpaq.core.result").parse_jaqal_output_list(c, out)


def outcome(fn, *a, **kw):
    """('ok', value) | ('jaqal', type name, message) | ('exc', type name, message)."""
    try:
        return ("ok", fn(*a, **kw))
    except JaqalError as ex:
        return ("jaqal", type(ex).__name__, str(ex))
    except RecursionError as ex:
        return ("exc", "RecursionError", str(ex)[:200])
    except Exception as ex:
        return ("exc", type(ex).__name__, str(ex)[:300])


# -- budgeted execution (logical steps, never wall-clock) -----------------------------------
_MON = None
WALK_FILES = ("walkers.py", "visitor.py", "backend.py", "result.py", "used_qubit_visitor.py", "register.py")


def step_monitor():
    global _MON
    if _MON is None:
        from . import monitors

        _MON = monitors.StepMonitor(files=WALK_FILES)
        _MON.start(lines=True)
    return _MON


def budgeted(fn, budget, *a, **kw):
    """outcome() under a step budget counted in the tree-walking modules:
    ('ok', value, steps) | ('jaqal'|'exc', type, msg, steps) | ('budget', steps)."""
    mon = step_monitor()
    st, v, steps = mon.run(lambda: fn(*a, **kw), budget)
    if st == "ok":
        return ("ok", v, steps)
    if st == "budget":
        return ("budget", steps)
    if isinstance(v, JaqalError):
        return ("jaqal", type(v).__name__, str(v), steps)
    return ("exc", type(v).__name__, str(v)[:300], steps)


_MON_ALL = None


def step_monitor_all():
    """Step monitor counting LINE events in every jaqalpaq module (C16)."""
    global _MON_ALL
    if _MON_ALL is None:
        import sys as _sys

        from . import monitors

        _MON_ALL = monitors.StepMonitor(files=None, tool_id=_sys.monitoring.COVERAGE_ID)
        _MON_ALL.start(lines=True)
    return _MON_ALL
