"""Native gate set supplied by the harness (the sandbox has no qscout gate models), as
jaqalpaq GateDefinition objects built from gateset_sig.

Every ideal_unitary is wrapped so that each evaluation appends (gate name, classical args)
to EVENT_LOG: the log is the emulator's observed gate stream.
"""
from jaqalpaq.core import GateDefinition, Parameter, ParamType
from jaqalpaq.core.gatedef import BusyGateDefinition, add_idle_gates

from .gateset_sig import RAW, GATES, VARIANTS, BUSY, unitary, nq, plain_numbers, call  # noqa: F401

KIND = {"q": ParamType.QUBIT, "f": ParamType.FLOAT, "i": ParamType.INT}

EVENT_LOG = []


def _logged(name, fn):
    def ideal_unitary(*args):
        EVENT_LOG.append((name, tuple(args)))
        return call(fn, args)

    ideal_unitary.__name__ = "U_" + name
    return ideal_unitary


def _used_base():
    """A one-qubit gate definition that has already been looked at by everything that may keep notes on a definition
    (its qubit parameters, its unitary, a statement made from it, the used-qubit analysis of that statement)."""
    import numpy as np
    from jaqalpaq.core import Register
    from jaqalpaq.core.algorithm.used_qubit_visitor import get_used_qubit_indices

    base = GateDefinition("base_gate", [Parameter("q0", ParamType.QUBIT)], ideal_unitary=lambda: np.eye(2, dtype=complex))
    list(base.used_qubits)
    list(base.quantum_parameters) if hasattr(base, "quantum_parameters") else None
    list(base.classical_parameters) if hasattr(base, "classical_parameters") else None
    base.ideal_unitary()
    st = base(Register("tmp_r", 2)[1])
    get_used_qubit_indices(st)
    return base


def make(idle=True, logged=True, variant="A"):
    """variant "A" / "B": the two signature tables of gateset_sig; "As": plus stretched variants.  A trailing "d" ("Ad", "Bd") makes every
    definition a copy() of one already-used one-qubit definition with name, parameters and unitary replaced --
    the documented way to derive a gate from another."""
    stretched = "s" in variant[1:]
    derived = "d" in variant[1:]
    variant = variant[0]
    g = {
        "prepare_all": BusyGateDefinition("prepare_all"),
        "measure_all": BusyGateDefinition("measure_all"),
    }
    base = _used_base() if derived else None
    for name, (params, fn) in VARIANTS[variant].items():
        u = None if fn is None else (_logged(name, fn) if logged else (lambda *a, _f=fn: call(_f, a)))
        if name in BUSY:
            g[name] = BusyGateDefinition(name, [Parameter(n, KIND[k]) for n, k in params], ideal_unitary=u)
        elif derived and u is not None:
            g[name] = base.copy(name=name, parameters=[Parameter(n, KIND[k]) for n, k in params], ideal_unitary=u)
        else:
            g[name] = GateDefinition(name, [Parameter(n, KIND[k]) for n, k in params], ideal_unitary=u)
    if idle:
        g = add_idle_gates(g)
    if stretched:
        # variant "As": the set also holds a stretched variant <name>_s of every gate (one extra trailing float)
        from jaqalpaq.core.stretch import stretched_gates
        from .gateset_sig import STRETCH_SUFFIX

        plain = {k: v for k, v in g.items() if k not in ("prepare_all", "measure_all", "I_prepare_all", "I_measure_all")}
        for k, v in stretched_gates(plain, suffix=STRETCH_SUFFIX).items():
            g.setdefault(k, v)
    return g
