"""Native gate set supplied by the harness (the sandbox has no qscout gate models), as
jaqalpaq GateDefinition objects built from gateset_sig.

Every ideal_unitary is wrapped so that each evaluation appends (gate name, classical args)
to EVENT_LOG: the log is the emulator's observed gate stream.
"""
from jaqalpaq.core import GateDefinition, Parameter, ParamType
from jaqalpaq.core.gatedef import BusyGateDefinition, add_idle_gates

from .gateset_sig import RAW, GATES, VARIANTS, unitary, nq  # noqa: F401

KIND = {"q": ParamType.QUBIT, "f": ParamType.FLOAT, "i": ParamType.INT}

EVENT_LOG = []


def _logged(name, fn):
    def ideal_unitary(*args):
        EVENT_LOG.append((name, tuple(args)))
        return fn(*args)

    ideal_unitary.__name__ = "U_" + name
    return ideal_unitary


def make(idle=True, logged=True, variant="A"):
    g = {
        "prepare_all": BusyGateDefinition("prepare_all"),
        "measure_all": BusyGateDefinition("measure_all"),
    }
    for name, (params, fn) in VARIANTS[variant].items():
        u = None if fn is None else (_logged(name, fn) if logged else fn)
        g[name] = GateDefinition(name, [Parameter(n, KIND[k]) for n, k in params], ideal_unitary=u)
    if idle:
        g = add_idle_gates(g)
    return g
