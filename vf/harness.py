"""Sharding, seeds, watchdog, aggregation, evidence, known-findings classification, exit codes.

A check = one driver process that fans out to shard subprocesses (subprocess.run with a
timeout, never multiprocessing.Pool).  Each shard runs cases in-process against the real
jaqalpaq code (imported from $VERIF_REPO/src via PYTHONPATH) and writes a JSON result.
The driver merges counters, de-duplicates witnesses by mechanism signature, matches them
against the *open* entries of known_findings.json, writes evidence/<ID>.json and decides
the exit code:  0 held / 1 violation / 2 inconclusive.
"""
import fnmatch
import hashlib
import importlib
import json
import os
import random
import subprocess
import sys
import time
import traceback

ROOT = os.path.dirname(os.path.dirname(os.path.abspath(__file__)))
REPO = os.environ.get("VERIF_REPO", "/repo")
ALL_IDS = ["C%02d" % i for i in range(1, 21)]

MAX_SAMPLES = 8
MAX_WITNESS_PER_SIG = 3


def h64(obj):
    """Stable 64-bit hash of a JSON-like object (independent of PYTHONHASHSEED)."""
    s = json.dumps(obj, sort_keys=True, default=repr, separators=(",", ":"))
    return int.from_bytes(hashlib.blake2b(s.encode(), digest_size=8).digest(), "big")


def jsonable(o, depth=0):
    if depth > 40:
        return "<deep>"
    if isinstance(o, (str, int, bool)) or o is None:
        return o
    if isinstance(o, float):
        if o != o or o in (float("inf"), float("-inf")):
            return repr(o)
        return o
    if isinstance(o, complex):
        return [o.real, o.imag]
    if isinstance(o, dict):
        return {str(k): jsonable(v, depth + 1) for k, v in o.items()}
    if isinstance(o, (list, tuple, set, frozenset)):
        return [jsonable(v, depth + 1) for v in o]
    try:
        import numpy

        if isinstance(o, numpy.ndarray):
            return jsonable(o.tolist(), depth + 1)
        if isinstance(o, numpy.generic):
            return jsonable(o.item(), depth + 1)
    except Exception:
        pass
    return repr(o)


class Recorder:
    """Collects what one shard observed."""

    def __init__(self, prop, seed, tier, index, nshards):
        self.prop = prop
        self.seed = seed
        self.tier = tier
        self.index = index
        self.nshards = nshards
        self.evaluations = 0
        self.distinct = set()
        self.counters = {}
        self.maxima = {}
        self.samples = []
        self.witnesses = {}  # sig -> list of witnesses
        self.witness_counts = {}
        self.inconclusive = []
        self.notes = {}
        self.exhaustive = None
        self.t0 = time.time()
        self.deadline = None

    # -- budget -----------------------------------------------------------
    def time_left(self):
        if self.deadline is None:
            return 1e9
        return self.deadline - time.time()

    def expired(self):
        return self.time_left() <= 0

    # -- recording --------------------------------------------------------
    def case(self, key, nontrivial=True):
        self.evaluations += 1
        if nontrivial:
            self.distinct.add(h64(key))

    def count(self, name, n=1):
        self.counters[name] = self.counters.get(name, 0) + n

    def maximum(self, name, v):
        if v > self.maxima.get(name, float("-inf")):
            self.maxima[name] = v

    def sample(self, obj, force=False):
        if len(self.samples) < MAX_SAMPLES or force:
            self.samples.append(jsonable(obj))

    def violation(self, sig, detail, case=None):
        """sig: mechanism signature (which oracle clause failed + witness features)."""
        self.witness_counts[sig] = self.witness_counts.get(sig, 0) + 1
        lst = self.witnesses.setdefault(sig, [])
        if len(lst) < MAX_WITNESS_PER_SIG:
            lst.append({"sig": sig, "detail": jsonable(detail), "case": jsonable(case)})

    def inconc(self, reason):
        if reason not in self.inconclusive:
            self.inconclusive.append(reason)

    def note(self, key, value):
        self.notes[key] = jsonable(value)

    def dump(self):
        return {
            "prop": self.prop,
            "seed": self.seed,
            "index": self.index,
            "evaluations": self.evaluations,
            "distinct": sorted(self.distinct),
            "counters": self.counters,
            "maxima": self.maxima,
            "samples": self.samples,
            "witnesses": self.witnesses,
            "witness_counts": self.witness_counts,
            "inconclusive": self.inconclusive,
            "notes": self.notes,
            "exhaustive": self.exhaustive,
            "wall_s": time.time() - self.t0,
        }


class Ctx:
    def __init__(self, rec, seed, tier, index, nshards):
        self.rec = rec
        self.seed = seed
        self.tier = tier
        self.index = index
        self.nshards = nshards
        self.rng = random.Random(seed)
        self.quick = tier == "quick"

    def scale(self, quick, thorough):
        """Total amount of work for the tier, divided between shards."""
        total = quick if self.quick else thorough
        return max(1, total // self.nshards)

    def mine(self, i):
        """Deterministic partition of an enumerated space between shards."""
        return i % self.nshards == self.index


def load_prop(pid):
    return importlib.import_module("vf.props." + pid.lower())


# ---------------------------------------------------------------------------
# shard entry point
# ---------------------------------------------------------------------------


def run_shard(pid, seed, tier, index, nshards, out, budget_s):
    import faulthandler

    faulthandler.enable()
    rec = Recorder(pid, seed, tier, index, nshards)
    rec.deadline = time.time() + budget_s
    ctx = Ctx(rec, seed, tier, index, nshards)
    try:
        mod = load_prop(pid)
        mod.shard(ctx)
    except BaseException as ex:  # harness failure -> inconclusive, never a violation
        rec.inconc("harness-exception: %s: %s" % (type(ex).__name__, ex))
        rec.note("harness_traceback", traceback.format_exc()[-4000:])
    with open(out, "w") as fd:
        json.dump(rec.dump(), fd)


# ---------------------------------------------------------------------------
# known findings
# ---------------------------------------------------------------------------


def load_known():
    path = os.path.join(ROOT, "known_findings.json")
    try:
        with open(path) as fd:
            return json.load(fd).get("findings", [])
    except FileNotFoundError:
        return []


def match_known(pid, sig, known):
    """Only *open* entries of this property can claim a witness; matching is by mechanism
    signature (glob), never by case hash or random values."""
    for k in known:
        if k.get("status") != "open" or k.get("property") != pid:
            continue
        for pat in k.get("sigs", []):
            if fnmatch.fnmatchcase(sig, pat):
                return k
    return None


# ---------------------------------------------------------------------------
# driver
# ---------------------------------------------------------------------------


def tier_params(pid, tier):
    mod = load_prop(pid)
    cfg = getattr(mod, "TIERS", {})
    d = {"quick": {"shards": 8, "budget_s": 60}, "thorough": {"shards": 16, "budget_s": 420}}[tier]
    d = dict(d)
    d.update(cfg.get(tier, {}))
    return d


def drive(pid, tier, seed):
    t0 = time.time()
    mod = load_prop(pid)
    par = tier_params(pid, tier)
    nsh = par["shards"]
    budget = par["budget_s"]
    scratch = os.path.join(ROOT, ".scratch", "run", "%s-%s-%d-%d" % (pid, tier, seed, os.getpid()))
    os.makedirs(scratch, exist_ok=True)
    procs = []
    env = dict(os.environ)
    env.setdefault("PYTHONHASHSEED", "0")
    env["OMP_NUM_THREADS"] = "1"
    env["OPENBLAS_NUM_THREADS"] = "1"
    env["MKL_NUM_THREADS"] = "1"
    for k in range(nsh):
        out = os.path.join(scratch, "shard%d.json" % k)
        cmd = [
            sys.executable, "-m", "vf.cli", "--shard", pid, "--tier", tier,
            "--seed", str(seed * 1000 + k), "--index", str(k), "--nshards", str(nsh),
            "--out", out, "--budget", str(budget),
        ]
        log = open(os.path.join(scratch, "shard%d.log" % k), "w")
        procs.append((k, out, subprocess.Popen(cmd, cwd=ROOT, env=env, stdout=log, stderr=subprocess.STDOUT), log))
    results = []
    inconclusive = []
    watchdog = budget * 3 + 120
    for k, out, p, log in procs:
        left = max(5, watchdog - (time.time() - t0))
        try:
            rc = p.wait(timeout=left)
        except subprocess.TimeoutExpired:
            p.kill()
            p.wait()
            rc = None
        log.close()
        if rc is None:
            inconclusive.append("shard %d hit the wall-clock watchdog" % k)
            continue
        if rc != 0 or not os.path.exists(out):
            tail = ""
            try:
                tail = open(os.path.join(scratch, "shard%d.log" % k)).read()[-1500:]
            except Exception:
                pass
            inconclusive.append("shard %d died rc=%s: %s" % (k, rc, tail))
            continue
        with open(out) as fd:
            results.append(json.load(fd))

    # merge
    evaluations = sum(r["evaluations"] for r in results)
    distinct = set()
    counters = {}
    maxima = {}
    samples = []
    witnesses = {}
    wcounts = {}
    notes = {}
    exhaustive_flags = []
    for r in results:
        distinct.update(r["distinct"])
        for k, v in r["counters"].items():
            counters[k] = counters.get(k, 0) + v
        for k, v in r["maxima"].items():
            maxima[k] = max(maxima.get(k, v), v)
        for s in r["samples"]:
            if len(samples) < MAX_SAMPLES:
                samples.append(s)
        for sig, lst in r["witnesses"].items():
            witnesses.setdefault(sig, []).extend(lst)
        for sig, n in r["witness_counts"].items():
            wcounts[sig] = wcounts.get(sig, 0) + n
        for x in r["inconclusive"]:
            inconclusive.append("shard %d: %s" % (r["index"], x))
        for k, v in r["notes"].items():
            notes.setdefault(k, v)
        if r.get("exhaustive") is not None:
            exhaustive_flags.append(bool(r["exhaustive"]))

    # requirements on what the monitors must have seen (else inconclusive)
    req = getattr(mod, "REQUIRE", {})
    req = req.get(tier, req) if ("quick" in req or "thorough" in req) else req
    for name, minimum in req.items():
        if counters.get(name, 0) < minimum:
            inconclusive.append("monitor '%s' observed %d < %d events" % (name, counters.get(name, 0), minimum))
    if len(distinct) < 2 and results:
        inconclusive.append("fewer than 2 distinct non-trivial cases")

    known = load_known()
    violations = []
    known_seen = {}
    replay_dir = os.path.join(ROOT, "replays", pid)
    for sig in sorted(witnesses):
        lst = witnesses[sig]
        k = match_known(pid, sig, known)
        if k is not None:
            known_seen.setdefault(k["id"], {"count": 0, "sigs": set()})
            known_seen[k["id"]]["count"] += wcounts.get(sig, len(lst))
            known_seen[k["id"]]["sigs"].add(sig)
            continue
        os.makedirs(replay_dir, exist_ok=True)
        w = lst[0]
        payload = {"property": pid, "sig": sig, "tier": tier, "seed": seed, "case": w["case"], "detail": w["detail"]}
        name = hashlib.sha1(json.dumps(payload, sort_keys=True, default=repr).encode()).hexdigest()[:16]
        path = os.path.join(replay_dir, name + ".json")
        with open(path, "w") as fd:
            json.dump(payload, fd, indent=1, default=repr)
        violations.append((sig, path, w, wcounts.get(sig, len(lst))))

    # output
    for k in known:
        if k.get("status") == "open" and k.get("property") == pid:
            seen = known_seen.get(k["id"], {"count": 0})["count"]
            print("KNOWN-FINDING: property=%s %s [%s; witnesses this run: %d]" % (pid, k["what"], k["id"], seen))
    for sig, path, w, n in violations:
        print("VIOLATION property=%s replay=%s" % (pid, path))
        print("  signature: %s   (%d witnesses)" % (sig, n))
        print("  detail: %s" % json.dumps(w["detail"], default=repr)[:1500])
        print("  case: %s" % json.dumps(w["case"], default=repr)[:1500])
    for x in inconclusive[:6]:
        print("INCONCLUSIVE property=%s reason=%s" % (pid, x[:2000]))
    if len(inconclusive) > 6:
        print("INCONCLUSIVE property=%s ... and %d more reasons (see evidence file)" % (pid, len(inconclusive) - 6))

    wall = time.time() - t0
    coverage = {
        "evaluations": evaluations,
        "distinct_nontrivial": len(distinct),
        "rule": getattr(mod, "RULE", ""),
        "samples": samples,
        "counters": dict(sorted(counters.items())),
        "maxima": maxima,
        "known_findings_observed": {k: {"count": v["count"], "sigs": sorted(v["sigs"])} for k, v in known_seen.items()},
        "violation_signatures": {sig: n for sig, _p, _w, n in violations},
        "inconclusive": inconclusive,
        "shards": len(results),
        "notes": notes,
    }
    if exhaustive_flags:
        coverage["exhaustive"] = all(exhaustive_flags) and len(results) == nsh
    ev = {
        "property_id": pid,
        "tier": tier,
        "seed": seed,
        "level": "exploration",
        "coverage": coverage,
        "assumptions": getattr(mod, "ASSUMPTIONS", []),
        "wall_s": round(wall, 2),
        "violations": len(violations),
    }
    os.makedirs(os.path.join(ROOT, "evidence"), exist_ok=True)
    with open(os.path.join(ROOT, "evidence", pid + ".json"), "w") as fd:
        json.dump(ev, fd, indent=1, default=repr)
    summary = {k: v for k, v in sorted(counters.items())}
    print("SUMMARY property=%s tier=%s seed=%d evaluations=%d distinct_nontrivial=%d shards=%d/%d wall=%.1fs" % (
        pid, tier, seed, evaluations, len(distinct), len(results), nsh, wall))
    print("  counters: " + json.dumps(summary)[:3000])
    # clean scratch
    try:
        import shutil

        shutil.rmtree(scratch, ignore_errors=True)
    except Exception:
        pass
    if violations:
        return 1
    if inconclusive:
        return 2
    return 0


def replay(pid, path):
    mod = load_prop(pid)
    with open(path) as fd:
        payload = json.load(fd)
    rec = Recorder(pid, 0, "quick", 0, 1)
    ctx = Ctx(rec, payload.get("seed", 0), "quick", 0, 1)
    mod.replay(ctx, payload["case"])
    known = load_known()
    rc = 0
    for sig, lst in rec.witnesses.items():
        k = match_known(pid, sig, known)
        if k is not None:
            print("KNOWN-FINDING: property=%s %s [%s]" % (pid, k["what"], k["id"]))
            continue
        print("VIOLATION property=%s replay=%s" % (pid, path))
        print("  signature: %s" % sig)
        print("  detail: %s" % json.dumps(lst[0]["detail"], default=repr)[:3000])
        rc = 1
    if rc == 0:
        print("replay: property %s held on this case" % pid)
    return rc
