"""pytest plugin: runs the repository's own tests with the input-immutability contracts on
(`-p vf.pytest_plugin`); observations are dumped to $VF_CONTRACT_REPORT as JSON."""
import json
import os


def pytest_configure(config):
    from vf import monitors

    monitors.install_contracts()


def pytest_sessionfinish(session, exitstatus):
    from vf import monitors

    path = os.environ.get("VF_CONTRACT_REPORT")
    if path:
        with open(path, "w") as fd:
            json.dump({"evals": monitors.CONTRACT_EVALS, "fails": monitors.CONTRACT_FAILS, "exitstatus": int(exitstatus)}, fd)
