"""Reference lexer and predictive parser for the Jaqal grammar (independent of sly / jaqalpaq).

    program  := pad_s [ top ( sep_s top )* [sep_s] ] EOF      header statements only before the first body statement
    header   := 'register' ID '[' ioi ']' | 'let' ID (INT|NUMBER)
              | 'map' ID ID [ '[' ( ioi | [ioi] ':' [ioi] [ ':' ioi ] ) ']' ] | 'from' (ID|DOTID) 'usepulses' '*'
    body     := gate | seq | par | sub | loop | macro
    gate     := ID arg* ;  arg := ID | NUMBER | INT | ID '[' (ID|INT) ']'
    seq      := '{' pad_s [ s_stmt ( sep_s s_stmt )* [sep_s] ] '}' ;  s_stmt := gate | par | loop | sub
    par      := '<' pad_p [ p_stmt ( sep_p p_stmt )* [sep_p] ] '>' ;  p_stmt := gate | seq
    loop     := 'loop' ioi (seq|par) ;  sub := 'subcircuit' [ioi] seq-interior ;  macro := 'macro' ID ID* (seq|par)
    sep_s := (NL|';')+   pad_s := (NL|';')*   sep_p := (NL|'|')+   pad_p := (NL|'|')*   ioi := INT | ID

The parser checks a token before consuming it, so the token at which it stops is the
first token after which no completion exists (the *first offending token*).
Constructs the properties do not list (branch/case, '0101' literals, import ... as ...)
are not part of this grammar: their tokens are offending wherever they appear.
"""
import re

KEYWORDS = {"register": "REG", "map": "MAP", "let": "LET", "macro": "MACRO", "loop": "LOOP", "import": "IMPORT",
            "usepulses": "USEPULSES", "from": "FROM", "as": "AS", "branch": "BRANCH", "subcircuit": "SUBCIRCUIT"}
LITERALS = set("<>|{};[],*:")

_ID = re.compile(r"[a-zA-Z_](\.?[a-zA-Z0-9_])*")
_DOTID = re.compile(r"\.([a-zA-Z_](\.?[a-zA-Z0-9_])*)?")
_NUMBER = re.compile(r"[-+]?[0-9]*\.[0-9]+([eE][-+]?[0-9]+)?")
_INT = re.compile(r"[-+]?[0-9]+")
_BININT = re.compile(r"'[0-1]+'")


class LexFailure(Exception):
    def __init__(self, pos, line, col, why):
        super().__init__("%s at %d:%d" % (why, line, col))
        self.pos, self.line, self.col, self.why = pos, line, col, why


class Tok:
    __slots__ = ("kind", "value", "text", "pos", "line", "col")

    def __init__(self, kind, value, text, pos, line, col):
        self.kind, self.value, self.text, self.pos, self.line, self.col = kind, value, text, pos, line, col

    def __repr__(self):
        return "%s(%r)@%d:%d" % (self.kind, self.text, self.line, self.col)


def lex(text):
    """Token list with 1-based (line, column).  Raises LexFailure at the first character that
    starts no token (or at an unterminated block comment)."""
    toks = []
    i = 0
    line = 1
    line_start = 0
    n = len(text)
    while i < n:
        ch = text[i]
        if ch == " " or ch == "\t":
            i += 1
            continue
        col = i - line_start + 1
        if ch == "\n":
            j = i
            while j < n and text[j] == "\n":
                j += 1
            toks.append(Tok("NL", None, text[i:j], i, line, col))
            line += j - i
            line_start = j
            i = j
            continue
        if text.startswith("//", i):
            j = text.find("\n", i)
            i = n if j < 0 else j
            continue
        if text.startswith("/*", i):
            j = text.find("*/", i + 2)
            if j < 0:
                raise LexFailure(i, line, col, "unterminated block comment")
            body = text[i:j + 2]
            nl = body.count("\n")
            if nl:
                line += nl
                line_start = i + body.rfind("\n") + 1
            i = j + 2
            continue
        m = _ID.match(text, i)
        if m:
            s = m.group(0)
            toks.append(Tok(KEYWORDS.get(s, "ID"), s, s, i, line, col))
            i = m.end()
            continue
        m = _DOTID.match(text, i)
        if m:
            toks.append(Tok("DOTID", m.group(0), m.group(0), i, line, col))
            i = m.end()
            continue
        m = _NUMBER.match(text, i)
        if m:
            v = float(m.group(0))
            if v in (float("inf"), float("-inf")):  # no finite number: a lexical error of the text, at the literal
                raise LexFailure(i, line, col, "number out of range")
            toks.append(Tok("NUMBER", v, m.group(0), i, line, col))
            i = m.end()
            continue
        m = _INT.match(text, i)
        if m:
            try:
                v = int(m.group(0))
            except ValueError:  # beyond Python's digit limit for int(): a lexical error of the text
                raise LexFailure(i, line, col, "integer literal too long")
            toks.append(Tok("INT", v, m.group(0), i, line, col))
            i = m.end()
            continue
        m = _BININT.match(text, i)
        if m:
            toks.append(Tok("BININT", m.group(0), m.group(0), i, line, col))
            i = m.end()
            continue
        if ch in LITERALS:
            toks.append(Tok(ch, ch, ch, i, line, col))
            i += 1
            continue
        raise LexFailure(i, line, col, "illegal character %r" % ch)
    return toks


class Reject(Exception):
    """index = index of the first offending token (len(tokens) = end of input)."""

    def __init__(self, index, why, semantic=False):
        super().__init__("%s at token %d" % (why, index))
        self.index, self.why, self.semantic = index, why, semantic


class Parser:
    def __init__(self, toks):
        self.t = toks
        self.i = 0
        self.in_body = False

    def kind(self):
        return self.t[self.i].kind if self.i < len(self.t) else "EOF"

    def fail(self, why, semantic=False, at=None):
        raise Reject(self.i if at is None else at, why, semantic)

    def take(self, kind, why=None):
        if self.kind() != kind:
            self.fail(why or "expected %s" % kind)
        tok = self.t[self.i]
        self.i += 1
        return tok

    # separators -------------------------------------------------------------------
    def pad(self, bar):
        while self.kind() in ("NL", bar):
            self.i += 1

    def sep(self, bar):
        if self.kind() not in ("NL", bar):
            return False
        self.pad(bar)
        return True

    # program ------------------------------------------------------------------------
    def program(self):
        out = ["circuit"]
        self.pad(";")
        if self.kind() != "EOF":
            out.append(self.top())
            while True:
                if self.kind() == "EOF":
                    break
                if not self.sep(";"):
                    self.fail("expected separator")
                if self.kind() == "EOF":
                    break
                out.append(self.top())
        return tuple(out)

    def top(self):
        k = self.kind()
        start = self.i
        if k in ("REG", "LET", "MAP", "FROM"):
            if self.in_body:
                self.fail("header statement after body statement")
            return self.header()
        if k in ("ID", "<", "{", "SUBCIRCUIT", "LOOP", "MACRO"):
            self.in_body = True
            if k == "MACRO":
                return self.macro()
            if k == "{":
                return self.seq()
            return self.s_stmt()
        self.fail("expected statement")

    def ioi(self):
        if self.kind() == "INT":
            return self.take("INT").value
        if self.kind() == "ID":
            return self.take("ID").value
        self.fail("expected integer or identifier")

    def header(self):
        k = self.kind()
        if k == "REG":
            self.take("REG")
            name = self.take("ID").value
            self.take("[")
            at = self.i
            size = self.ioi()
            self.take("]")
            if isinstance(size, int) and size <= 0:
                # semantic rule enforced inside the parser; outside the grammar clause of C02
                raise Reject(at, "register size <= 0", semantic=True)
            return ("register", name, size)
        if k == "LET":
            self.take("LET")
            name = self.take("ID").value
            if self.kind() in ("INT", "NUMBER"):
                v = self.t[self.i].value
                self.i += 1
                return ("let", name, v)
            self.fail("expected number")
        if k == "MAP":
            self.take("MAP")
            name = self.take("ID").value
            src = self.take("ID").value
            if self.kind() != "[":
                return ("map", name, src)
            self.take("[")
            if self.kind() == ":":
                start = None
            else:
                start = self.ioi()
                if self.kind() == "]":
                    self.take("]")
                    return ("map", name, src, start)
            self.take(":")
            stop = None
            if self.kind() in ("INT", "ID"):
                stop = self.ioi()
            step = None
            if self.kind() == ":":
                self.take(":")
                step = self.ioi()
            self.take("]")
            return ("map", name, src, start, stop, step)
        if k == "FROM":
            self.take("FROM")
            if self.kind() in ("ID", "DOTID"):
                mod = self.t[self.i].value
                self.i += 1
            else:
                self.fail("expected module name")
            self.take("USEPULSES")
            self.take("*")
            return ("usepulses", mod, "*")
        self.fail("expected header statement")

    # body -------------------------------------------------------------------------------
    def gate(self):
        name = self.take("ID").value
        args = []
        while self.kind() in ("ID", "NUMBER", "INT"):
            tok = self.t[self.i]
            self.i += 1
            if tok.kind == "ID" and self.kind() == "[":
                self.take("[")
                if self.kind() in ("ID", "INT"):
                    idx = self.t[self.i].value
                    self.i += 1
                else:
                    self.fail("expected index")
                self.take("]")
                args.append(("array_item", tok.value, idx))
            else:
                args.append(tok.value)
        return ("gate", name) + tuple(args)

    def s_stmt(self):
        k = self.kind()
        if k == "ID":
            return self.gate()
        if k == "<":
            return self.par()
        if k == "LOOP":
            self.take("LOOP")
            n = self.ioi()
            return ("loop", n, self.block())
        if k == "SUBCIRCUIT":
            self.take("SUBCIRCUIT")
            n = ""
            if self.kind() in ("INT", "ID"):
                n = self.ioi()
            items = self.curly()
            return ("subcircuit_block", n) + tuple(items)
        self.fail("expected statement of a sequential block")

    def block(self):
        if self.kind() == "{":
            return self.seq()
        if self.kind() == "<":
            return self.par()
        self.fail("expected block")

    def curly(self):
        self.take("{")
        self.pad(";")
        items = []
        if self.kind() != "}":
            items.append(self.s_stmt())
            while True:
                if self.kind() == "}":
                    break
                if not self.sep(";"):
                    self.fail("expected separator or }")
                if self.kind() == "}":
                    break
                items.append(self.s_stmt())
        self.take("}")
        return items

    def seq(self):
        return ("sequential_block",) + tuple(self.curly())

    def par(self):
        self.take("<")
        self.pad("|")
        items = []

        def p_stmt():
            if self.kind() == "ID":
                return self.gate()
            if self.kind() == "{":
                return self.seq()
            self.fail("expected statement of a parallel block")

        if self.kind() != ">":
            items.append(p_stmt())
            while True:
                if self.kind() == ">":
                    break
                if not self.sep("|"):
                    self.fail("expected separator or >")
                if self.kind() == ">":
                    break
                items.append(p_stmt())
        self.take(">")
        return ("parallel_block",) + tuple(items)

    def macro(self):
        self.take("MACRO")
        names = [self.take("ID").value]
        while self.kind() == "ID":
            names.append(self.take("ID").value)
        body = self.block()
        return ("macro",) + tuple(names) + (body,)


def parse(text):
    """('ok', sexpr, tokens) | ('lex', LexFailure) | ('reject', Reject, tokens)."""
    try:
        toks = lex(text)
    except LexFailure as ex:
        return ("lex", ex, None)
    return parse_tokens(toks)


def parse_tokens(toks):
    p = Parser(toks)
    try:
        tree = p.program()
        if p.kind() != "EOF":
            p.fail("trailing input")
        return ("ok", tree, toks)
    except Reject as ex:
        return ("reject", ex, toks)
