"""./check <ID> [--tier quick|thorough] [--replay PATH]   (and the internal --shard mode)."""
import argparse
import os
import sys


def main(argv=None):
    ap = argparse.ArgumentParser()
    ap.add_argument("pid", nargs="?")
    ap.add_argument("--tier", default=os.environ.get("VERIF_TIER", "quick"), choices=["quick", "thorough"])
    ap.add_argument("--replay")
    ap.add_argument("--shard")
    ap.add_argument("--seed", type=int, default=None)
    ap.add_argument("--index", type=int, default=0)
    ap.add_argument("--nshards", type=int, default=1)
    ap.add_argument("--out")
    ap.add_argument("--budget", type=float, default=60)
    a = ap.parse_args(argv)
    if os.environ.get("JAQALPAQ_VERIF") != "1":
        print("INCONCLUSIVE reason=monitors refused: JAQALPAQ_VERIF is not set (use ./check)")
        return 2
    from vf import harness

    if a.shard:
        harness.run_shard(a.shard, a.seed or 0, a.tier, a.index, a.nshards, a.out, a.budget)
        return 0
    if not a.pid:
        ap.error("property id required")
    pid = a.pid.upper()
    if a.replay:
        return harness.replay(pid, a.replay)
    seed = a.seed if a.seed is not None else int(os.environ.get("VERIF_SEED", "0") or 0)
    return harness.drive(pid, a.tier, seed)


if __name__ == "__main__":
    sys.exit(main())
