"""Signatures and ideal unitaries of the harness's native gate set (numpy only, no jaqalpaq).

Convention (property C03): bit j of a gate-matrix index <-> the gate's j-th qubit argument.
"""
import numpy as np

Q, F, I = "q", "f", "i"

def U_Rx(t):
    c, s = np.cos(t / 2), np.sin(t / 2)
    return np.array([[c, -1j * s], [-1j * s, c]])


def U_Ry(t):
    c, s = np.cos(t / 2), np.sin(t / 2)
    return np.array([[c, -s], [s, c]], dtype=complex)


def U_Rz(t):
    return np.array([[np.exp(-0.5j * t), 0], [0, np.exp(0.5j * t)]])


def U_R(a, t):
    c, s = np.cos(t / 2), np.sin(t / 2)
    return np.array([[c, (-1j * np.cos(a) - np.sin(a)) * s], [(-1j * np.cos(a) + np.sin(a)) * s, c]])


def U_X():
    return np.array([[0, 1], [1, 0]], dtype=complex)


def U_H():
    return np.array([[1, 1], [1, -1]], dtype=complex) / np.sqrt(2)


def U_S():  # non-Hermitian, asymmetric under transpose-conjugate
    return np.array([[1, 0], [0, 1j]], dtype=complex)


def U_T2():  # non-symmetric 1-qubit matrix: makes a transposed application visible
    return np.array([[1, 1j], [1j, 1]], dtype=complex) / np.sqrt(2) @ np.array([[1, 0], [0, np.exp(0.3j)]])


def U_CX():  # control = first qubit argument = bit 0 of the matrix index
    m = np.zeros((4, 4), dtype=complex)
    for i in range(4):
        c = i & 1
        t = (i >> 1) & 1
        j = c | ((t ^ c) << 1)
        m[j, i] = 1
    return m


def U_CP(t):  # controlled phase, symmetric in its qubits, classical arg *between* the qubit args
    m = np.eye(4, dtype=complex)
    m[3, 3] = np.exp(1j * t)
    return m


def U_CRy(t):  # controlled Ry: asymmetric two-qubit, parametrised; control = first qubit
    m = np.eye(4, dtype=complex)
    r = U_Ry(t)
    # control bit0 = 1: indices 1 (t=0) and 3 (t=1)
    m[1, 1], m[1, 3], m[3, 1], m[3, 3] = r[0, 0], r[0, 1], r[1, 0], r[1, 1]
    return m


def U_CRz(t):  # controlled Rz: exactly diagonal and NOT symmetric in its qubits (control = first qubit = bit 0)
    return np.diag([1, np.exp(-0.5j * t), 1, np.exp(0.5j * t)]).astype(complex)


def U_MS(a, t):  # Molmer-Sorensen-like, symmetric
    c, s = np.cos(t / 2), np.sin(t / 2)
    e = np.exp(1j * 2 * a)
    m = np.array(
        [[c, 0, 0, -1j * s / e], [0, c, -1j * s, 0], [0, -1j * s, c, 0], [-1j * s * e, 0, 0, c]], dtype=complex
    )
    return m


def U_CCX():  # bits 0,1 controls; bit 2 target
    m = np.zeros((8, 8), dtype=complex)
    for i in range(8):
        a = i & 1
        b = (i >> 1) & 1
        c = (i >> 2) & 1
        j = a | (b << 1) | ((c ^ (a & b)) << 2)
        m[j, i] = 1
    return m


def U_PW(k):  # integer parameter: Z^(k/4); depends on the integer exactly (k mod 8), however large it is
    import numbers

    if isinstance(k, numbers.Integral) and not isinstance(k, bool):
        k = int(k) % 8
    return np.array([[1, 0], [0, np.exp(1j * np.pi * k / 4)]], dtype=complex)


U_PW.exact_ints = True


def _pw_b(k):
    return U_PW(-k)


_pw_b.exact_ints = True


def U_ZZ(t):  # exp(-i t/2 Z(x)Z): used for a *busy* (not parallelisable) native gate that nevertheless has a unitary
    return np.diag([np.exp(-0.5j * t), np.exp(0.5j * t), np.exp(0.5j * t), np.exp(-0.5j * t)]) @ (
        np.array([[1, 0, 0, 1j], [0, 1, 1j, 0], [0, 1j, 1, 0], [1j, 0, 0, 1]], dtype=complex) / np.sqrt(2))


# gates declared as BusyGateDefinition (they count as using every qubit); never chosen by the program generators,
# a check that wants one inserts it itself
BUSY = {"GZZ"}
STRETCH_SUFFIX = "_s"

RAW = {
    "GZZ": ([("a", Q), ("b", Q), ("t", F)], U_ZZ),
    "Rx": ([("q", Q), ("t", F)], U_Rx),
    "Ry": ([("q", Q), ("t", F)], U_Ry),
    "Rz": ([("q", Q), ("t", F)], U_Rz),
    "R": ([("q", Q), ("a", F), ("t", F)], U_R),
    "X": ([("q", Q)], U_X),
    "H": ([("q", Q)], U_H),
    "S": ([("q", Q)], U_S),
    "T2": ([("q", Q)], U_T2),
    "CX": ([("c", Q), ("t", Q)], U_CX),
    "CP": ([("a", Q), ("t", F), ("b", Q)], U_CP),
    "CRy": ([("c", Q), ("t", Q), ("th", F)], U_CRy),
    "CRz": ([("c", Q), ("t", Q), ("th", F)], U_CRz),
    "MS": ([("a", Q), ("b", Q), ("ph", F), ("t", F)], U_MS),
    "CCX": ([("a", Q), ("b", Q), ("c", Q)], U_CCX),
    "PW": ([("q", Q), ("k", I)], U_PW),
    "NOP": ([("q", Q)], None),
    "NOP2": ([("a", Q), ("b", Q)], None),
}





def _cx_rev():  # target = first qubit argument, control = second
    m = np.zeros((4, 4), dtype=complex)
    for i in range(4):
        t = i & 1
        c = (i >> 1) & 1
        j = (t ^ c) | (c << 1)
        m[j, i] = 1
    return m


def _ccz():
    m = np.eye(8, dtype=complex)
    m[7, 7] = -1
    return m


# Variant B: the same names and signatures bound to *different* matrices (a second native gate
# set in the same process: a stale per-name cache or a hard-wired matrix becomes visible).
RAW_B = dict(RAW)
RAW_B.update({
    "X": (RAW["X"][0], U_H), "H": (RAW["H"][0], U_X), "S": (RAW["S"][0], U_T2), "T2": (RAW["T2"][0], U_S),
    "Rx": (RAW["Rx"][0], U_Ry), "Ry": (RAW["Ry"][0], U_Rz), "Rz": (RAW["Rz"][0], U_Rx),
    "CX": (RAW["CX"][0], _cx_rev), "CP": (RAW["CP"][0], lambda t: U_CP(-2 * t)),
    "CRy": (RAW["CRy"][0], lambda t: U_CRy(-t)), "CRz": (RAW["CRz"][0], lambda t: U_CRz(-t)), "MS": (RAW["MS"][0], lambda a, t: U_MS(a + 0.5, t)),
    "CCX": (RAW["CCX"][0], _ccz), "PW": (RAW["PW"][0], _pw_b),
})
VARIANTS = {"A": RAW, "B": RAW_B}

GATES = {name: [(pn, k) for pn, k in params] for name, (params, fn) in RAW.items() if name not in BUSY}
for _n in list(GATES):
    GATES["I_" + _n] = GATES[_n]
ALL_SIGNATURES = dict(GATES, **{name: [(pn, k) for pn, k in RAW[name][0]] for name in BUSY})


def nq(name):
    return sum(1 for _p, k in ALL_SIGNATURES[name] if k == "q")


def base(name):
    return name[2:] if name.startswith("I_") else name


def plain_numbers(args, keep_ints=False):
    """Python integers beyond 64 bits (numpy's ufuncs refuse them) as floats: the gate matrices are functions of real numbers.
    A numpy scalar of a narrower type (numpy.float32(0.5), handed through unchanged by the library) is taken as the double of
    the same value, so that the matrix is computed in double precision whatever type the caller's number had."""
    out = []
    for a in args:
        if isinstance(a, np.floating):
            a = float(a)
        elif not keep_ints and isinstance(a, int) and not isinstance(a, bool) and abs(a) >= 2 ** 62:
            a = float(a)
        out.append(a)
    return out


def call(fn, args):
    """Evaluate a gate matrix function on classical arguments as the emulator hands them over."""
    return fn(*plain_numbers(args, keep_ints=getattr(fn, "exact_ints", False)))


def unitary(name, classical, variant="A"):
    """Independent evaluation of a gate matrix; None for idle / unitary-less gates."""
    if name.startswith("I_") or name in ("prepare_all", "measure_all"):
        return None
    if name.endswith(STRETCH_SUFFIX):
        # a stretched variant: the parent's matrix, whatever the trailing stretch factor
        name, classical = name[: -len(STRETCH_SUFFIX)], classical[:-1]
    fn = VARIANTS[variant.rstrip("ds")][name][1]
    if fn is None:
        return None
    return np.asarray(call(fn, classical), dtype=complex)
