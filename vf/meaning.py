"""Reference semantics: the "gate-level meaning" normal form.

Two front ends build the same *core tree*:
  core_from_sx(prog)      from the program model, resolving identifiers lexically (written
                          from the Jaqal language rules);
  core_from_ir(circuit)   from a live jaqalpaq Circuit, reading only public attributes of IR
                          objects (and Register._size) -- no library algorithm is called
                          (no resolve_qubit, no visitor, no Register.size/resolve_size).
and one evaluator `evaluate(core, ...)` applies call-by-substitution macro expansion, let
evaluation in an environment, alias resolution by composing start+i*step along the
declarations, and subcircuit expansion, then normalises.

Core tree
  Core.lets      {name: number}                      (declaration order kept)
  Core.regs      {name: R}  every register / alias declaration, in order
  Core.usepulses [str]
  Core.macros    {name: (params, body)}
  Core.body      ('seq', items)
  R    = ('R', name, decl)      decl = ('fund', size) | ('whole', R) | ('slice', R, start, stop, step)
         ('A1', name, R, index)                    single-qubit alias
  stmt = ('gate', name, args) | ('seq', items) | ('par', items) | ('loop', count, body) | ('sub', count, body)
  val  = number | ('let', n) | ('param', n)
  arg  = val | ('item', base, val) | A1 | R         base = R | ('param', n)

Normal form (the only identifications made): nested blocks of the same kind without a
subcircuit annotation are flattened, a non-subcircuit block with exactly one item is that
item, numbers compare by value.  Loop counts, subcircuit counts, block kinds, gate names,
argument order and qubit identity are never identified.
"""


class MeaningError(Exception):
    """The reference semantics itself cannot assign a meaning (e.g. index out of range)."""

    def __init__(self, kind, msg=""):
        super().__init__("%s: %s" % (kind, msg))
        self.kind = kind


class OracleError(Exception):
    """The IR reader met an object it does not understand (machinery problem => inconclusive)."""


class Core:
    def __init__(self):
        self.lets = {}
        self.regs = {}
        self.usepulses = []
        self.macros = {}
        self.body = ("seq", ())
        self.native = None  # names of native gates when known

    def fundamental(self):
        return [r for r in self.regs.values() if r[0] == "R" and r[2][0] == "fund"]


# ---------------------------------------------------------------------------
# front end 1: the program model
# ---------------------------------------------------------------------------


def core_from_sx(prog):
    assert prog[0] == "circuit"
    c = Core()

    def val(v, params):
        if isinstance(v, str):
            if v in params:
                return ("param", v)
            if v in c.lets:
                return ("let", v)
            raise MeaningError("undefined", v)
        return v

    def arg(a, params):
        if isinstance(a, tuple):
            _, arr, idx = a
            if arr in params:
                base = ("param", arr)
            elif arr in c.regs and c.regs[arr][0] == "R":
                base = c.regs[arr]
            else:
                raise MeaningError("not-a-register", arr)
            return ("item", base, val(idx, params))
        if isinstance(a, str):
            if a in params:
                return ("param", a)
            if a in c.lets:
                return ("let", a)
            if a in c.regs:
                return c.regs[a]
            raise MeaningError("undefined", a)
        return a

    def stmt(s, params):
        k = s[0]
        if k == "gate":
            return ("gate", s[1], tuple(arg(a, params) for a in s[2:]))
        if k == "sequential_block":
            return ("seq", tuple(stmt(x, params) for x in s[1:]))
        if k == "parallel_block":
            return ("par", tuple(stmt(x, params) for x in s[1:]))
        if k == "subcircuit_block":
            n = 1 if s[1] == "" else val(s[1], params)
            return ("sub", n, ("seq", tuple(stmt(x, params) for x in s[2:])))
        if k == "loop":
            return ("loop", val(s[1], params), stmt(s[2], params))
        raise MeaningError("bad-statement", k)

    body = []
    for s in prog[1:]:
        k = s[0]
        if k == "let":
            c.lets[s[1]] = s[2]
        elif k == "usepulses":
            c.usepulses.append(s[1])
        elif k == "register":
            size = s[2]
            c.regs[s[1]] = ("R", s[1], ("fund", ("let", size) if isinstance(size, str) else size))
        elif k == "map":
            src = c.regs.get(s[2])
            if src is None or src[0] != "R":
                raise MeaningError("not-a-register", s[2])
            if len(s) == 3:
                c.regs[s[1]] = ("R", s[1], ("whole", src))
            elif len(s) == 4:
                c.regs[s[1]] = ("A1", s[1], src, val(s[3], ()))
            else:
                st, sp, se = (None if v is None else val(v, ()) for v in s[3:6])
                c.regs[s[1]] = ("R", s[1], ("slice", src, st, sp, se))
        elif k == "macro":
            params = tuple(s[2:-1])
            c.macros[s[1]] = (params, stmt(s[-1], params))
        else:
            body.append(stmt(s, ()))
    c.body = ("seq", tuple(body))
    return c


# ---------------------------------------------------------------------------
# front end 2: live IR objects
# ---------------------------------------------------------------------------


def core_from_ir(circ):
    import numbers

    from jaqalpaq.core import (BlockStatement, LoopStatement, GateStatement, Macro, Register, NamedQubit, Constant,
                               Parameter)

    c = Core()
    memo = {}

    def val(v):
        if isinstance(v, bool):
            raise OracleError("bool value %r" % (v,))
        if isinstance(v, (int, float)):
            return int(v) if isinstance(v, int) else float(v)
        if isinstance(v, numbers.Integral):  # e.g. numpy integers handed to the builder: the same number
            return int(v)
        if isinstance(v, numbers.Real):
            return float(v)
        if isinstance(v, Constant):
            return ("let", v.name)
        if isinstance(v, Parameter):
            return ("param", v.name)
        if v is None:
            return None
        raise OracleError("unknown value %r" % (v,))

    def reg(r):
        if id(r) in memo:
            return memo[id(r)]
        if isinstance(r, Parameter):
            out = ("param", r.name)
        elif isinstance(r, Register):
            if r.alias_from is None:
                out = ("R", r.name, ("fund", val(r._size)))
            elif r.alias_slice is None:
                out = ("R", r.name, ("whole", reg(r.alias_from)))
            else:
                sl = r.alias_slice
                out = ("R", r.name, ("slice", reg(r.alias_from), val(sl.start), val(sl.stop), val(sl.step)))
        elif isinstance(r, NamedQubit):
            out = ("A1", r.name, reg(r.alias_from), val(r.alias_index))
        else:
            raise OracleError("unknown register-like %r" % (r,))
        memo[id(r)] = out
        return out

    def arg(a, names):
        if isinstance(a, NamedQubit):
            # an indexed reference `arr[i]` is stored as NamedQubit named "arr[i]"; a
            # declared single-qubit alias keeps its declared name.
            base = reg(a.alias_from)
            if isinstance(names.get(a.name), NamedQubit):
                return ("A1", a.name, base, val(a.alias_index))
            return ("item", base, val(a.alias_index))
        if isinstance(a, Register):
            return reg(a)
        if isinstance(a, (Constant, Parameter, int, float, numbers.Real)):
            return val(a)
        raise OracleError("unknown argument %r" % (a,))

    names = dict(circ.registers)

    def stmt(s):
        if isinstance(s, GateStatement):
            # a call is bound to a macro only if the circuit it belongs to has a macro of that name
            if isinstance(s.gate_def, Macro) and s.name not in circ.macros:
                raise OracleError("statement %s is bound to a macro, but the circuit has no macro %s" % (s.name, s.name))
            # a statement maps parameter NAMES to values: read in the order of the definition's parameters, whatever the
            # order of the dictionary (a statement made by hand may list them differently)
            vals = list(s.parameters.values())
            try:
                decl = [p.name for p in s.gate_def.parameters]
                if len(decl) == len(s.parameters) and set(decl) == set(s.parameters):
                    vals = [s.parameters[n] for n in decl]
            except Exception:
                pass
            return ("gate", s.name, tuple(arg(a, names) for a in vals))
        if isinstance(s, LoopStatement):
            return ("loop", val(s.iterations), stmt(s.statements))
        if isinstance(s, BlockStatement):
            items = tuple(stmt(x) for x in s.statements)
            if s.subcircuit:
                return ("sub", val(s.iterations), ("par" if s.parallel else "seq", items))
            return ("par" if s.parallel else "seq", items)
        raise OracleError("unknown statement %r" % (s,))

    for k, v in circ.constants.items():
        if not isinstance(v, Constant):
            raise OracleError("constants[%r] is %r" % (k, v))
        c.lets[k] = val(v.value) if not isinstance(v.value, Constant) else v.value
    for k, r in circ.registers.items():
        c.regs[k] = reg(r)
    for u in circ.usepulses:
        c.usepulses.append(str(u.module))
    for k, m in circ.macros.items():
        if not isinstance(m, Macro):
            raise OracleError("macros[%r] is %r" % (k, m))
        c.macros[k] = (tuple(p.name for p in m.parameters), stmt(m.body))
    c.body = stmt(circ.body)
    c.native = set(circ.native_gates)
    c.gate_defs = {}
    return c


# ---------------------------------------------------------------------------
# evaluator
# ---------------------------------------------------------------------------


def _as_int(v, what):
    if isinstance(v, bool):
        raise MeaningError("not-an-integer", "%s=%r" % (what, v))
    if isinstance(v, int):
        return v
    if isinstance(v, float) and v == int(v):
        return int(v)
    raise MeaningError("not-an-integer", "%s=%r" % (what, v))


class Evaluator:
    def __init__(self, core, expand_macros=True, env=None, eval_lets=None, resolve=False, expand_sub=False,
                 expand_a1=False):
        """env: override dictionary; eval_lets defaults to True when env is given or resolve.
        expand_a1: a reference to a declared single-qubit alias `map u src[i]` is written as
        the item src[i] it is declared to be (used when judging passes, which may legitimately
        respell the reference; not used for the text round trip)."""
        self.expand_a1 = expand_a1
        self.c = core
        self.expand_macros = expand_macros
        self.ov = dict(env or {})
        self.eval_lets = (env is not None or resolve) if eval_lets is None else eval_lets
        self.resolve = resolve
        self.expand_sub = expand_sub

    # values -----------------------------------------------------------
    def letval(self, name):
        if name in self.ov:
            return self.ov[name]
        if name not in self.c.lets:
            raise MeaningError("undefined-let", name)
        return self.c.lets[name]

    def val(self, v, bind, force=False):
        """Value of a classical expression.  Bound parameter values are closed expressions
        (see _close), so they are evaluated in the empty binding."""
        if isinstance(v, tuple):
            if v[0] == "param":
                if v[1] in bind:
                    return self.val(bind[v[1]], {}, force)
                return v
            if v[0] == "let":
                return self.letval(v[1]) if (self.eval_lets or force) else v
        return v

    # registers --------------------------------------------------------
    def elems(self, r, bind):
        """list of ('q', fundamental name, index) denoted by register-like r (declarations composed)."""
        if r[0] == "param":
            b = bind.get(r[1])
            if b is None:
                return None
            if isinstance(b, tuple) and b[0] in ("R", "param"):
                return self.elems(b, {})
            raise MeaningError("not-a-register", "parameter %s bound to %r" % (r[1], b))
        if r[0] != "R":
            raise MeaningError("not-a-register", repr(r[:2]))
        d = r[2]
        if d[0] == "fund":
            size = _as_int(self.val(d[1], {}, force=True), "register size")
            if size <= 0:
                raise MeaningError("bad-size", str(size))
            return [("q", r[1], i) for i in range(size)]
        src = self.elems(d[1], bind)
        if src is None:
            return None
        if d[0] == "whole":
            return src
        start = 0 if d[2] is None else _as_int(self.val(d[2], {}, force=True), "slice start")
        stop = len(src) if d[3] is None else _as_int(self.val(d[3], {}, force=True), "slice stop")
        step = 1 if d[4] is None else _as_int(self.val(d[4], {}, force=True), "slice step")
        if step == 0:
            raise MeaningError("bad-step", str(step))
        if start < 0:
            raise MeaningError("slice-out-of-range", "start %d" % start)
        idxs = list(range(start, stop, step))  # a negative step counts down, as in Python
        if stop > len(src) or (idxs and (max(idxs[0], idxs[-1]) >= len(src) or min(idxs[0], idxs[-1]) < 0)):
            raise MeaningError("slice-out-of-range", "%s:%s:%s of %d" % (start, stop, step, len(src)))
        return [src[i] for i in idxs]

    def qubit(self, base, index, bind):
        els = self.elems(base, bind)
        idx = self.val(index, bind, force=True)
        if isinstance(idx, tuple) and idx[0] not in ("param", "let"):
            raise MeaningError("not-an-integer", "index bound to %r" % (idx[:2],))
        if els is None or (isinstance(idx, tuple)):
            return None
        i = _as_int(idx, "index")
        if not 0 <= i < len(els):
            raise MeaningError("index-out-of-range", "%r[%d] size %d" % (base[1], i, len(els)))
        return els[i]

    # args ---------------------------------------------------------------
    def arg(self, a, bind):
        if isinstance(a, tuple):
            k = a[0]
            if k == "param":
                if a[1] in bind:
                    return self.arg(bind[a[1]], {})
                return a
            if k == "let":
                return self.letval(a[1]) if self.eval_lets else a
            if k == "item":
                base = a[1]
                if base[0] == "param" and base[1] in bind:
                    base = bind[base[1]]
                    if not (isinstance(base, tuple) and base[0] in ("R", "param")):
                        raise MeaningError("not-a-register", "parameter %s bound to %r" % (a[1][1], base))
                if self.resolve:
                    q = self.qubit(base, a[2], bind)
                    if q is not None:
                        return q
                idx = self.val(a[2], bind)
                return ("item", base[1] if base[0] == "R" else base, idx)
            if k == "A1":
                if self.resolve:
                    q = self.qubit(a[2], a[3], {})
                    if q is not None:
                        return q
                if self.expand_a1:
                    return self.arg(("item", a[2], a[3]), {})
                return ("alias1", a[1])
            if k == "R":
                if self.resolve:
                    return ("regq", tuple(self.elems(a, bind)))
                return ("reg", a[1])
            raise OracleError("bad arg %r" % (a,))
        return a

    # statements -----------------------------------------------------------
    def count(self, v, bind):
        return self.val(v, bind)

    def stmt(self, s, bind, stack=()):
        k = s[0]
        if k == "gate":
            args = tuple(self.arg(a, bind) for a in s[2])
            if self.expand_macros and s[1] in self.c.macros:
                if s[1] in stack:
                    raise MeaningError("recursive-macro", s[1])
                params, body = self.c.macros[s[1]]
                if len(params) != len(args):
                    raise MeaningError("arity", "%s takes %d, given %d" % (s[1], len(params), len(args)))
                # call-by-substitution: bind *unevaluated-but-closed* arguments
                raw = tuple(self._close(a, bind) for a in s[2])
                return self.stmt(body, dict(zip(params, raw)), stack + (s[1],))
            return ("gate", s[1], args)
        if k in ("seq", "par"):
            return (k, tuple(self.stmt(x, bind, stack) for x in s[1]))
        if k == "loop":
            return ("loop", self.count(s[1], bind), self.stmt(s[2], bind, stack))
        if k == "sub":
            body = self.stmt(s[2], bind, stack)
            n = self.count(s[1], bind)
            if self.expand_sub:
                items = body[1] if body[0] == "seq" else (body,)
                return ("seq", (("gate", "prepare_all", ()),) + tuple(items) + (("gate", "measure_all", ()),))
            return ("sub", n, body)
        raise OracleError("bad stmt %r" % (s,))

    def _close(self, a, bind):
        """Substitute the caller's bindings into an argument expression (no evaluation)."""
        if isinstance(a, tuple):
            if a[0] == "param":
                return bind.get(a[1], a)
            if a[0] == "item":
                base = a[1]
                if base[0] == "param" and base[1] in bind:
                    base = bind[base[1]]
                idx = a[2]
                if isinstance(idx, tuple) and idx[0] == "param" and idx[1] in bind:
                    idx = bind[idx[1]]
                return ("item", base, idx)
        return a


def normalise(t):
    k = t[0]
    if k in ("seq", "par"):
        out = []
        for x in t[1]:
            x = normalise(x)
            if x[0] == k:
                out.extend(x[1])
            elif x[0] in ("seq", "par") and not x[1]:
                continue  # an empty block applies no gate
            else:
                out.append(x)
        if len(out) == 1:
            return out[0]
        return (k, tuple(out))
    if k == "loop":
        return ("loop", t[1], normalise(t[2]))
    if k == "sub":
        b = normalise(t[2])
        # keep the body as a flat item list so that {X} and X inside a subcircuit agree
        items = b[1] if b[0] == "seq" else (b,)
        return ("sub", t[1], ("seq", tuple(items)))
    return t


def meaning(core, expand_macros=True, env=None, eval_lets=None, resolve=False, expand_sub=False, expand_a1=False):
    ev = Evaluator(core, expand_macros=expand_macros, env=env, eval_lets=eval_lets, resolve=resolve,
                   expand_sub=expand_sub, expand_a1=expand_a1)
    return normalise(ev.stmt(core.body, {}))


def macro_meanings(core, env=None, eval_lets=None, resolve=False, expand_sub=False, expand_macros=False,
                   expand_a1=False):
    ev = Evaluator(core, expand_macros=expand_macros, env=env, eval_lets=eval_lets, resolve=resolve,
                   expand_sub=expand_sub, expand_a1=expand_a1)
    return {name: (params, normalise(ev.stmt(body, {}))) for name, (params, body) in core.macros.items()}


def full_meaning(core, env=None):
    """Everything expanded: macros, lets (under env), aliases, subcircuits."""
    return meaning(core, expand_macros=True, env=env or {}, resolve=True, expand_sub=True)


def tree_equal(a, b):
    """Equality of meaning trees with numbers compared by value."""
    if isinstance(a, tuple) and isinstance(b, tuple):
        return len(a) == len(b) and all(tree_equal(x, y) for x, y in zip(a, b))
    if isinstance(a, (int, float)) and isinstance(b, (int, float)) and not isinstance(a, bool) and not isinstance(b, bool):
        return a == b
    return type(a) is type(b) and a == b


def number_kind_diff(a, b, path=()):
    """For two trees that are tree_equal: the first numeric argument *of a gate application* that is an int in one tree and a
    float in the other (Jaqal tells the two apart: an integer parameter refuses 2.0, generated text reads `2` or `2.0`).
    Counts and indices are integers however they were written, so they are not looked at."""
    if not (isinstance(a, tuple) and isinstance(b, tuple)) or len(a) != len(b):
        return None
    if a and a[0] == "gate" and len(a) == 3 and isinstance(a[2], tuple) and isinstance(b[2], tuple):
        for i, (x, y) in enumerate(zip(a[2], b[2])):
            if isinstance(x, (int, float)) and isinstance(y, (int, float)) and type(x) is not type(y):
                return (path + (2, i), "number-kind", repr(x), repr(y))
        return None
    for i, (x, y) in enumerate(zip(a, b)):
        d = number_kind_diff(x, y, path + (i,))
        if d:
            return d
    return None


def first_diff(a, b, path=()):
    if isinstance(a, tuple) and isinstance(b, tuple):
        if len(a) != len(b):
            return (path, "len %d != %d" % (len(a), len(b)), _short(a), _short(b))
        for i, (x, y) in enumerate(zip(a, b)):
            d = first_diff(x, y, path + (i,))
            if d:
                return d
        return None
    if tree_equal(a, b):
        return None
    return (path, "leaf", _short(a), _short(b))


def _short(x):
    s = repr(x)
    return s if len(s) < 300 else s[:300] + "..."


# ---------------------------------------------------------------------------
# declarations (header data) in a comparable form
# ---------------------------------------------------------------------------


def _rname(r):
    return r[1] if r[0] in ("R", "A1", "param") else repr(r)


def decl_of(r):
    """Declaration of one register / alias by names only (no chain), comparable between front ends."""
    if r[0] == "A1":
        return ("single", r[1], _rname(r[2]), r[3])
    d = r[2]
    if d[0] == "fund":
        return ("register", r[1], d[1])
    if d[0] == "whole":
        return ("whole", r[1], _rname(d[1]))
    return ("slice", r[1], _rname(d[1]), d[2], d[3], d[4])


def declarations(core, slice_defaults=True):
    """(lets, registers/aliases, usepulses) -- with slice defaults (start 0, stop = size of
    source, step 1) made explicit so that text `q[:]` and its built form compare equal."""
    regs = []
    for r in core.regs.values():
        d = decl_of(r)
        if d[0] == "slice" and slice_defaults:
            st = 0 if d[3] is None else d[3]
            se = 1 if d[5] is None else d[5]
            sp = d[4]
            if sp is None:
                sp = _declared_size(r[2][1])
            d = ("slice", d[1], d[2], st, sp, se)
        regs.append(d)
    return (tuple(core.lets.items()), tuple(regs), tuple(core.usepulses))


def _declared_size(r):
    """Symbolic size of a register as the builder would default a slice stop: the declared
    size of a fundamental register; for aliases the number of elements (lets symbolic only
    at a fundamental register)."""
    if r[0] != "R":
        return None
    d = r[2]
    if d[0] == "fund":
        return d[1]
    if d[0] == "whole":
        return _declared_size(d[1])
    return ("sizeof", r[1])


def validate(core, env=None):
    """Raise MeaningError unless every register/alias declaration and every qubit reference
    that does not depend on a macro parameter is in range under env (declared lets
    overridden by env) -- whether or not the statement holding it is ever executed."""
    ev = Evaluator(core, env=env or {}, resolve=True)
    for r in core.regs.values():
        if r[0] == "R":
            ev.elems(r, {})
        else:
            ev.qubit(r[2], r[3], {})

    def scan(t):
        if isinstance(t, tuple):
            if t and t[0] == "item":
                base, idx = t[1], t[2]
                if base[0] == "R" and not (isinstance(idx, tuple) and idx[0] == "param"):
                    ev.qubit(base, idx, {})
                return
            if t and t[0] in ("R", "A1"):
                return
            if t and t[0] in ("loop", "sub"):
                n = t[1]
                if not (isinstance(n, tuple) and n[0] == "param"):
                    v = ev.val(n, {}, force=True)
                    if _as_int(v, "count") < 0:
                        raise MeaningError("negative-count", str(v))
            for x in t:
                scan(x)

    scan(core.body)
    for _params, body in core.macros.values():
        scan(body)
