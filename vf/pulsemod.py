"""The harness gate set (variant A) as a pulse-definition module a Jaqal program can name:

    from vf.pulsemod usepulses *

used to drive the text-level execution entry points (run_jaqal_string, run_jaqal_file), which load the gates a program
names instead of taking a dictionary.  The definitions are the very objects execcommon.native("A") hands out."""
from .props import execcommon


class jaqal_gates:
    ALL_GATES = execcommon.native("A")
