"""Circuits assembled through the core object API instead of the parser / builder.

rebuild_with_keyword_calls(c, seed): the same circuit, but every gate statement is re-created by
calling its gate definition with KEYWORD arguments given in a random order (documented:
`gate_def(**kwargs)` "calls the gate with named arguments"), and blocks, loops, macros and the
circuit object are re-assembled from the constructors of the core classes.  Nothing about the
meaning changes: every consumer must treat the result like the original.
"""
import random


def rebuild_with_keyword_calls(c, seed=0, raw=False):
    """raw=True: the statements are made with the GateStatement constructor itself, which takes "a map from gate
    parameter names to the values" -- in whatever order the caller's dictionary lists them."""
    from jaqalpaq.core import Circuit, Macro, BlockStatement, LoopStatement, GateStatement

    rng = random.Random(seed)
    stats = {"keyword-calls": 0, "reordered": 0}

    def stmt(s):
        if isinstance(s, GateStatement):
            items = list(s.parameters.items())
            if not items:
                return s
            order = list(items)
            rng.shuffle(order)
            stats["keyword-calls"] += 1
            if [k for k, _ in order] != [k for k, _ in items]:
                stats["reordered"] += 1
            if raw:
                return GateStatement(s.gate_def, dict(order))
            return s.gate_def(**dict(order))
        if isinstance(s, LoopStatement):
            return LoopStatement(s.iterations, stmt(s.statements))
        if isinstance(s, BlockStatement):
            return BlockStatement(parallel=s.parallel, subcircuit=s.subcircuit, iterations=s.iterations,
                                  statements=[stmt(x) for x in s.statements])
        return s

    out = Circuit(native_gates=c.native_gates)
    out.constants.update(c.constants)
    out.registers.update(c.registers)
    for name, m in c.macros.items():
        out.macros[name] = Macro(m.name, m.parameters, stmt(m.body))
    out.usepulses.extend(c.usepulses)
    out.body.statements.extend(stmt(s) for s in c.body.statements)
    return out, stats


def assemble_from_objects(prog, native=None, seed=None):
    """The circuit of a model program put together from the constructors of the core classes (Circuit, Register,
    BlockStatement, LoopStatement, gate_def(...)) -- no parser, no builder, hence none of their nesting rules.
    Supports lets, one register, maps, gates, blocks, loops and subcircuit blocks (no macros).
    With a seed two more liberties of hand-made circuits are taken at random: a sequential block may be an
    UnscheduledBlockStatement (a subclass that everything but the scheduler treats as an ordinary block), and statements
    that are written alike may be ONE object placed at several positions."""
    from jaqalpaq.core import Circuit, Register, Constant, BlockStatement, LoopStatement, GateDefinition, Parameter, ParamType
    from jaqalpaq.core.block import UnscheduledBlockStatement

    rng = random.Random(seed)
    share = seed is not None and rng.random() < 0.5
    shared = {}
    stats = {"unscheduled": 0, "shared": 0}
    c = Circuit(native_gates=native)
    names = {}

    def val(x):
        return names[x] if isinstance(x, str) else x

    anon = {}

    def gate_def(name, nargs):
        if native is not None:
            return c.native_gates[name]
        if name not in anon:
            anon[name] = GateDefinition(name, [Parameter("p%d" % i, ParamType.NONE) for i in range(nargs)])
        return anon[name]

    def arg(a):
        if isinstance(a, tuple) and a[0] == "array_item":
            return names[a[1]][val(a[2])]
        return val(a)

    def stmt(s):
        if share and s[0] != "gate":
            if s in shared:
                stats["shared"] += 1
                return shared[s]
            shared[s] = out = stmt1(s)
            return out
        return stmt1(s)

    def stmt1(s):
        k = s[0]
        if k == "gate":
            return gate_def(s[1], len(s) - 2)(*[arg(a) for a in s[2:]])
        if k == "sequential_block":
            if seed is not None and rng.random() < 0.3:
                stats["unscheduled"] += 1
                return UnscheduledBlockStatement(parallel=False, statements=[stmt(x) for x in s[1:]])
            return BlockStatement(parallel=False, statements=[stmt(x) for x in s[1:]])
        if k == "parallel_block":
            return BlockStatement(parallel=True, statements=[stmt(x) for x in s[1:]])
        if k == "subcircuit_block":
            return BlockStatement(parallel=False, subcircuit=True, iterations=1 if s[1] == "" else val(s[1]),
                                  statements=[stmt(x) for x in s[2:]])
        if k == "loop":
            return LoopStatement(val(s[1]), stmt(s[2]))
        raise ValueError("cannot assemble %r" % (k,))

    for s in prog[1:]:
        k = s[0]
        if k == "let":
            names[s[1]] = c.constants[s[1]] = Constant(s[1], s[2])
        elif k == "register":
            names[s[1]] = c.registers[s[1]] = Register(s[1], val(s[2]))
        elif k == "map":
            src = names[s[2]]
            if len(s) == 3:
                r = Register(s[1], alias_from=src)
            elif len(s) == 4:
                r = src[val(s[3])].renamed(s[1])
            else:
                st, sp, se = (None if x is None else val(x) for x in s[3:6])
                r = Register(s[1], alias_from=src, alias_slice=slice(0 if st is None else st, src.size if sp is None else sp, 1 if se is None else se))
            names[s[1]] = c.registers[s[1]] = r
        elif k in ("usepulses", "macro"):
            raise ValueError("cannot assemble %r" % (k,))
        else:
            c.body.statements.append(stmt(s))
    ASSEMBLE_STATS["unscheduled"] += stats["unscheduled"]
    ASSEMBLE_STATS["shared"] += stats["shared"]
    return c


ASSEMBLE_STATS = {"unscheduled": 0, "shared": 0}


def fuse_parallel_subcircuits(c):
    """`subcircuit N { < A | B > }` rewritten, with core constructors, as ONE block that is both a subcircuit and
    parallel (BlockStatement(parallel=True, subcircuit=True, ...)): prepare, branches side by side, measure -- a block
    only core objects can form (the parser and the builder always make sequential subcircuit blocks).
    Returns (new circuit, number of blocks fused)."""
    from jaqalpaq.core import Circuit, Macro, BlockStatement, LoopStatement

    n = [0]

    def stmt(s):
        if isinstance(s, LoopStatement):
            return LoopStatement(s.iterations, stmt(s.statements))
        if isinstance(s, BlockStatement):
            inner = [stmt(x) for x in s.statements]
            if s.subcircuit and not s.parallel and len(inner) == 1 and isinstance(inner[0], BlockStatement) \
                    and inner[0].parallel and not inner[0].subcircuit:
                n[0] += 1
                return BlockStatement(parallel=True, subcircuit=True, iterations=s.iterations, statements=list(inner[0].statements))
            return BlockStatement(parallel=s.parallel, subcircuit=s.subcircuit, iterations=s.iterations, statements=inner)
        return s

    out = Circuit(native_gates=c.native_gates)
    out.constants.update(c.constants)
    out.registers.update(c.registers)
    for name, m in c.macros.items():
        out.macros[name] = Macro(m.name, m.parameters, stmt(m.body))
    out.usepulses.extend(c.usepulses)
    out.body.statements.extend(stmt(s) for s in c.body.statements)
    return out, n[0]


def type_macro_parameters(c):
    """The same circuit with every macro re-made from core constructors, its parameters carrying the KIND their use in the
    body implies (a parameter handed to a native gate's qubit parameter becomes ParamType.QUBIT, one used as index INT,
    one indexed as a register REGISTER, ...), as a program written against the core classes would declare them.  Parameters
    whose kind the body does not determine (only handed on to other macros, or used with conflicting kinds) stay untyped.
    Returns (new circuit, number of parameters that got a kind)."""
    from jaqalpaq.core import Circuit, Macro, BlockStatement, LoopStatement, GateStatement, NamedQubit, Parameter, ParamType

    typed = [0]

    def infer(macro):
        kinds = {}

        def note(p, kind):
            if isinstance(p, Parameter) and any(p is q for q in macro.parameters):
                kinds.setdefault(p.name, set()).add(kind)

        def walk(s):
            if isinstance(s, GateStatement):
                gd = s.gate_def
                native = not isinstance(gd, Macro)
                for pdef, val in zip(gd.parameters, s.parameters.values()):
                    if isinstance(val, NamedQubit):
                        note(val.alias_from, ParamType.REGISTER)
                        note(val.alias_index, ParamType.INT)
                    elif native and pdef.kind is not None and pdef.kind != ParamType.NONE:
                        note(val, pdef.kind)
                    else:
                        note(val, None)
            elif isinstance(s, LoopStatement):
                note(s.iterations, ParamType.INT)
                walk(s.statements)
            elif isinstance(s, BlockStatement):
                if s.subcircuit:
                    note(s.iterations, ParamType.INT)
                for x in s.statements:
                    walk(x)

        walk(macro.body)
        return {n: next(iter(k)) for n, k in kinds.items() if len(k) == 1 and None not in k}

    def rebuild(macro):
        kinds = infer(macro)
        new = {p.name: (Parameter(p.name, kinds[p.name]) if p.name in kinds else p) for p in macro.parameters}
        typed[0] += len(kinds)
        old = {id(p): new[p.name] for p in macro.parameters}

        def val(v):
            if isinstance(v, Parameter) and id(v) in old:
                return old[id(v)]
            if isinstance(v, NamedQubit) and (id(v.alias_from) in old or id(v.alias_index) in old):
                return val(v.alias_from)[val(v.alias_index)]
            return v

        def stmt(s):
            if isinstance(s, GateStatement):
                return s.gate_def(*[val(v) for v in s.parameters.values()])
            if isinstance(s, LoopStatement):
                return LoopStatement(val(s.iterations), stmt(s.statements))
            if isinstance(s, BlockStatement):
                return BlockStatement(parallel=s.parallel, subcircuit=s.subcircuit, iterations=val(s.iterations),
                                      statements=[stmt(x) for x in s.statements])
            return s

        return Macro(macro.name, [new[p.name] for p in macro.parameters], stmt(macro.body))

    out = Circuit(native_gates=c.native_gates)
    out.constants.update(c.constants)
    out.registers.update(c.registers)
    for name, m in c.macros.items():
        out.macros[name] = rebuild(m)
    out.usepulses.extend(c.usepulses)

    def rebind(s):
        """calls in the body refer to the re-made macros"""
        if isinstance(s, GateStatement):
            if isinstance(s.gate_def, Macro) and s.name in out.macros:
                return out.macros[s.name](*s.parameters.values())
            return s
        if isinstance(s, LoopStatement):
            return LoopStatement(s.iterations, rebind(s.statements))
        if isinstance(s, BlockStatement):
            return BlockStatement(parallel=s.parallel, subcircuit=s.subcircuit, iterations=s.iterations,
                                  statements=[rebind(x) for x in s.statements])
        return s

    # macros calling macros: re-bind inside the re-made bodies too (definition order = dependency order)
    for name in list(out.macros):
        m = out.macros[name]
        out.macros[name] = Macro(m.name, m.parameters, rebind(m.body))
    out.body.statements.extend(rebind(s) for s in c.body.statements)
    return out, typed[0]
