"""C19 -- unit-timing normalisation preserves the lock-step schedule."""
from itertools import zip_longest

from .. import sx, lib, meaning as M, monitors, minimise, apiroute
from .common import header_diff, native_names, sig, case_prog

RULE = ("programs with arbitrary alternating nesting of sequential and parallel blocks to depth 6 with unequal branch lengths, "
        "empty blocks, loops at sequential level, loops under parallel blocks (must be rejected), subcircuit blocks with and "
        "without counts, header data (lets, register, aliases, macros, pulse imports); every gate carries a unique numeric tag so "
        "that instances are unambiguous. Oracle = reference scheduler (sequence: consecutive; parallel: branches start together, "
        "duration = longest branch; loop / subcircuit: opaque item with its own inner schedule) applied to the input IR and to the "
        "output IR, which must also be flat. non-trivial = program has a parallel block with branches of unequal length; "
        "distinct = S-expression")
ASSUMPTIONS = ["a loop is an opaque item of the outer sequence; its body is compared by meaning, not re-scheduled",
               "a subcircuit block is an opaque annotated item whose inner schedule must be preserved"]
TIERS = {"quick": {"shards": 8, "budget_s": 120}, "thorough": {"shards": 16, "budget_s": 300}}
REQUIRE = {"unscheduled-blocks-assembled": 500, "statement-objects-placed-more-than-once": 300, "programs-with-same-kind-nesting-assembled": 1000, "parallel-subcircuit-blocks-fused": 200, "schedules-compared": 1500, "loop-under-parallel": 200, "unequal-branches": 500, "with-subcircuit": 200,
           "empty-blocks": 200, "depth>=4": 200}


class NotFlat(Exception):
    pass


class MustReject(Exception):
    pass


def ref_columns(t):
    """Reference schedule of a core statement: list of columns; a column is a frozenset of gate
    identities or an opaque item ('loop', count, body) / ('sub', count, columns)."""
    k = t[0]
    if k == "gate":
        return [frozenset([(t[1], t[2])])]
    if k == "seq":
        out = []
        for x in t[1]:
            out.extend(ref_columns(x))
        return out
    if k == "par":
        branches = [ref_columns(x) for x in t[1]]
        out = []
        for cols in zip_longest(*branches):
            merged = set()
            for c in cols:
                if c is None:
                    continue
                if isinstance(c, tuple):
                    if c[0] == "loop":
                        raise MustReject("loop under parallel")
                    raise MustReject("subcircuit under parallel")
                merged |= c
            out.append(frozenset(merged))
        return out
    if k == "loop":
        return [("loop", t[1], M.normalise(_strip(t[2])))]
    if k == "sub":
        return [("sub", t[1], tuple(ref_columns(t[2])))]
    raise ValueError(k)


def _strip(t):
    return t


def out_columns(t, top=True):
    """Columns read off the *output* body, which must be flat."""
    if t[0] != "seq":
        raise NotFlat("body is not a sequence")
    out = []
    for x in t[1]:
        k = x[0]
        if k == "gate":
            out.append(frozenset([(x[1], x[2])]))
        elif k == "par":
            col = set()
            for y in x[1]:
                if y[0] != "gate":
                    raise NotFlat("parallel group contains a %s" % y[0])
                col.add((y[1], y[2]))
            if len(col) != len(x[1]):
                raise NotFlat("duplicate gate in group")
            out.append(frozenset(col))
        elif k == "loop":
            out.append(("loop", x[1], M.normalise(x[2])))
        elif k == "sub":
            out.append(("sub", x[1], tuple(out_columns(x[2], False))))
        else:
            raise NotFlat("item is a %s" % k)
    return out


def raw_body(core):
    ev = M.Evaluator(core, expand_macros=False)
    return ev.stmt(core.body, {})


def judge(case):
    prog = case_prog(case)
    if case.get("assemble"):
        # put together from core constructors: blocks of one kind may then sit directly inside each other
        o = lib.outcome(apiroute.assemble_from_objects, tuple(x for x in prog if not (isinstance(x, tuple) and x[0] in ("usepulses", "macro"))),
                        None, case.get("aseed"))
        if o[0] != "ok":
            return "inconclusive:cannot-assemble:%s" % (o[2],), [], {}
    else:
        if not sx.legal_nesting(prog):
            return "skipped:illegal-nesting", [], {}
        o = lib.outcome(lib.parse, sx.to_text(prog))
    if o[0] != "ok":
        return "skipped:input-rejected", [], {}
    c = o[1]
    fused = 0
    if case.get("fuse"):
        of = lib.outcome(apiroute.fuse_parallel_subcircuits, c)
        if of[0] != "ok":
            return "inconclusive:cannot-fuse:%s" % (of[2],), [], {}
        c, fused = of[1]
    try:
        kc = M.core_from_ir(c)
        body = raw_body(kc)
    except (M.OracleError, M.MeaningError) as ex:
        return "inconclusive:oracle:%s" % ex, [], {}
    try:
        expect = [col for col in ref_columns(body) if col != frozenset()]
        must_reject = None
    except MustReject as ex:
        expect = None
        must_reject = str(ex)
    info = {"must_reject": must_reject, "fused": fused}
    fails = []
    o = lib.outcome(lib.unit_timing, c)
    if o[0] == "exc":
        return "ok", [("crash:" + o[1], {"error": o[2]})], info
    if must_reject:
        if o[0] == "ok":
            fails.append(("accepts-" + must_reject.replace(" ", "-"), {}))
        return "ok", fails, info
    if o[0] == "jaqal":
        return "ok", [("rejects-schedulable-program", {"error": o[2]})], info
    r = o[1]
    try:
        kr = M.core_from_ir(r)
        rb = raw_body(kr)
        got = [col for col in out_columns(rb) if col != frozenset()]
    except NotFlat as ex:
        return "ok", [("output-not-flat", {"why": str(ex)})], info
    except (M.OracleError, M.MeaningError) as ex:
        return "ok", [("malformed-result", {"error": str(ex)[:200]})], info
    info["compared"] = True
    if got != expect:
        kind = "schedule-differs"
        flat_e = sorted(str(g) for col in expect for g in (col if isinstance(col, frozenset) else [col[:2]]))
        flat_g = sorted(str(g) for col in got for g in (col if isinstance(col, frozenset) else [col[:2]]))
        if flat_e != flat_g:
            kind = "gates-lost-or-duplicated"
            if str(expect).count("'sub'") != str(got).count("'sub'"):
                kind = "subcircuit-annotation-lost"
        fails.append((kind, {"expected": _show(expect), "got": _show(got)}))
    try:
        again = M.core_from_ir(r)
        if not M.tree_equal(M.meaning(again, expand_macros=False), M.meaning(kr, expand_macros=False)) or len(r.body.statements) != len(list(r.body.statements)):
            fails.append(("result-reads-differently-the-second-time", {}))
    except Exception as ex:
        fails.append(("result-cannot-be-read-again:" + type(ex).__name__, {"error": str(ex)[:150]}))
    hd = header_diff(kc, kr)
    if hd:
        fails.append(("header-changed:" + "+".join(h[0] for h in hd), {"diff": hd}))
    if native_names(c) != native_names(r):
        fails.append(("native-gates-changed", {}))
    mm1, mm2 = M.macro_meanings(kc), M.macro_meanings(kr)
    if not M.tree_equal(tuple(mm1.items()), tuple(mm2.items())):
        fails.append(("macros-changed", {}))
    return "ok", fails, info


def _show(cols):
    out = []
    for c in cols[:12]:
        if isinstance(c, frozenset):
            out.append(sorted(str(g[1][0]) if g[1] else g[0] for g in c))
        else:
            out.append(str(c)[:80])
    return out


# ---------------------------------------------------------------------------------------
def gen_prog(rng):
    tag = [0]
    feats = set()

    def gate():
        tag[0] += 1
        r = rng.random()
        if r < 0.8:
            return ("gate", "g", tag[0])
        if r < 0.9:
            return ("gate", "h", tag[0], ("array_item", "q", rng.randrange(3)))
        return ("gate", "mm", tag[0])

    def block(kind, depth, in_par, in_sub):
        n = rng.choice([0, 1, 1, 2, 2, 3, 4])
        if n == 0:
            feats.add("empty")
        items = []
        for _ in range(n):
            r = rng.random()
            if depth >= 6 or r < 0.45:
                items.append(gate())
            elif kind == "sequential_block":
                if r < 0.75:
                    items.append(block("parallel_block", depth + 1, True, in_sub))
                elif r < 0.9:
                    if in_par:
                        feats.add("loop-under-par")
                    items.append(("loop", rng.choice([0, 1, 3, "n"]), block(rng.choice(["sequential_block", "sequential_block", "parallel_block"]), depth + 1, in_par, in_sub)))
                elif not in_par and not in_sub:
                    feats.add("sub")
                    items.append(("subcircuit_block", rng.choice(["", "", 5, "n", 0, 1, "z"])) + block("sequential_block", depth + 1, in_par, True)[1:])
                else:
                    items.append(gate())
            else:
                items.append(block("sequential_block", depth + 1, in_par, in_sub))
        if kind == "parallel_block" and len(items) >= 2:
            feats.add("par>=2")
        feats.add("depth%d" % depth)
        return (kind,) + tuple(items)

    body = []
    for _ in range(rng.randint(1, 4)):
        r = rng.random()
        if r < 0.3:
            body.append(gate())
        elif r < 0.6:
            body.append(block("parallel_block", 1, True, False))
        elif r < 0.75:
            body.append(block("sequential_block", 1, False, False))
        elif r < 0.88:
            body.append(("loop", rng.choice([0, 2, "n"]), block("sequential_block", 1, False, False)))
        else:
            feats.add("sub")
            body.append(("subcircuit_block", rng.choice(["", 3, 0, 1])) + block("sequential_block", 1, False, True)[1:])
    if rng.random() < 0.04:
        # nothing to schedule: no statement at all, or empty blocks only -- the header is still the header
        body = rng.choice([[], [("sequential_block",)], [("parallel_block", ("sequential_block",), ("sequential_block",))], [("loop", 2, ("sequential_block",))]])
        feats.add("nothing-to-schedule")
    hdr = [("let", "n", 2), ("let", "z", 0), ("register", "q", 3), ("map", "a", "q", 0, 2, 1)]
    r = rng.random()
    if r < 0.3:
        hdr.insert(0, ("usepulses", "some.pulses", "*"))
    elif r < 0.4:
        hdr[0:0] = [("usepulses", "some.pulses", "*"), ("usepulses", "other.pulses", "*")]
    elif r < 0.5:
        # the same import written twice is two header statements
        hdr[0:0] = [("usepulses", "some.pulses", "*"), ("usepulses", "some.pulses", "*")]
        feats.add("same-import-twice")
    # macros are header data to this pass: whatever their bodies look like (not in normal form, a loop inside a parallel
    # block), called or not, they come out as they went in
    pool = [("macro", "mm", "t", ("sequential_block", ("gate", "g", "t"))),
            ("macro", "mp", "x", "y", ("parallel_block", ("gate", "g", "x"), ("sequential_block", ("gate", "g", "y"), ("gate", "h", "y")))),
            ("macro", "ms", "x", ("sequential_block", ("sequential_block", ("gate", "g", "x")), ("parallel_block", ("sequential_block", ("parallel_block", ("gate", "h", "x")))))),
            ("macro", "ml", "x", ("sequential_block", ("parallel_block", ("sequential_block", ("loop", 2, ("sequential_block", ("gate", "g", "x"))))))),
            ("macro", "me", ("parallel_block",))]
    macs = [pool[0]] + rng.sample(pool[1:], rng.randint(0, 3))
    if len(macs) > 1:
        feats.add("macro-body-not-in-normal-form")
    return ("circuit",) + tuple(hdr) + tuple(macs) + tuple(body), feats


def duplicate_statement(rng, prog):
    """Some compound statement of a sequential context written twice in a row (the second copy is the same S-expression,
    which the object assembler may turn into the same object)."""
    seqs = [b for b in sx.walk(prog) if b[0] in ("circuit", "sequential_block", "subcircuit_block")]
    cands = []
    for b in seqs:
        start = 2 if b[0] == "subcircuit_block" else 1
        for i in range(start, len(b)):
            if isinstance(b[i], tuple) and b[i][0] in ("sequential_block", "parallel_block", "subcircuit_block", "loop"):
                cands.append((b, i))
    if not cands:
        return prog
    target, i = rng.choice(cands)
    if target[0] == "sequential_block" and target[i][0] == "sequential_block":
        return prog
    new = target[:i + 1] + (target[i],) + target[i + 1:]
    done = [False]

    def rw(s):
        if not isinstance(s, tuple):
            return s
        if s is target and not done[0]:
            done[0] = True
            return new
        return tuple(rw(x) for x in s)

    return rw(prog)


def nest_same_kind(rng, prog):
    """Wrap a run of children of some block in another block of the SAME kind (only circuits made from core objects can
    look like that).  Returns the new program or None."""
    blocks = [b for b in sx.walk(prog) if b[0] in ("sequential_block", "parallel_block") and len(b) > 1]
    if not blocks:
        return None
    target = rng.choice(blocks)
    i = rng.randrange(1, len(target))
    j = rng.randint(i, len(target) - 1)
    new = target[:i] + ((target[0],) + target[i:j + 1],) + target[j + 1:]
    done = [False]

    def rw(s):
        if not isinstance(s, tuple):
            return s
        if s is target and not done[0]:
            done[0] = True
            return new
        return tuple(rw(x) for x in s)

    return rw(prog)


def unequal(prog):
    def length(s):
        if s[0] == "sequential_block":
            return len(s) - 1
        return 1

    for s in sx.walk(prog):
        if s[0] == "parallel_block" and len(s) > 2:
            ls = {length(x) for x in s[1:]}
            if len(ls) > 1:
                return True
    return False


def _clauses(case):
    return {f[0] for f in judge(case)[1]}


def process(ctx, case, feats, seen):
    rec = ctx.rec
    prog = case_prog(case)
    st, fails, info = judge(case)
    rec.case(prog, nontrivial=unequal(prog))
    if st != "ok":
        rec.count(st.split(":")[0] + ":" + st.split(":")[1])
        if st.startswith("inconclusive"):
            rec.inconc(st)
        return
    rec.count("judged")
    if info.get("compared"):
        rec.count("schedules-compared")
    if info.get("fused"):
        rec.count("parallel-subcircuit-blocks-fused", info["fused"])
    if info.get("must_reject"):
        rec.count("loop-under-parallel")
    if unequal(prog):
        rec.count("unequal-branches")
    if "sub" in feats:
        rec.count("with-subcircuit")
    if "empty" in feats:
        rec.count("empty-blocks")
    if any(f.startswith("depth") and int(f[5:]) >= 4 for f in feats):
        rec.count("depth>=4")
    for clause, detail in fails:
        seen[clause] = seen.get(clause, 0) + 1
        if seen[clause] > 3:
            rec.count("unminimised-repeat:" + clause)
            continue
        base = {"fuse": True} if (case.get("fuse") and clause not in _clauses({"prog": prog})) else {}
        if case.get("assemble"):
            base["assemble"] = True
            base["aseed"] = case.get("aseed")
        small = minimise.minimise(prog, lambda p: clause in _clauses(dict(base, prog=p)), budget=200)
        d2 = [x for x in judge(dict(base, prog=small))[1] if x[0] == clause]
        f = set()
        if base.get("fuse"):
            f.add("parallel-subcircuit-block-made-from-core-objects")
        if base.get("assemble"):
            f.add("same-kind-blocks-nested-by-core-objects")
        if any(s[0] == "subcircuit_block" for s in sx.walk(small)):
            f.add("sub")
        if any(s[0] == "usepulses" for s in sx.walk(small)):
            f.add("usepulses")
        rec.violation(sig("C19", clause, f), d2[0][1] if d2 else detail, dict(base, prog=small))


def shard(ctx):
    rec = ctx.rec
    monitors.install_contracts()
    n = ctx.scale(50000, 200000)
    seen = {}
    i = 0
    while i < n and not rec.expired():
        i += 1
        prog, feats = gen_prog(ctx.rng)
        case = {"prog": prog}
        if "sub" in feats and ctx.rng.random() < 0.5:
            case["fuse"] = True
        process(ctx, case, feats, seen)
        if i % 5 == 0:
            p2 = nest_same_kind(ctx.rng, prog)
            if p2 is not None:
                process(ctx, {"prog": p2, "assemble": True, "aseed": ctx.rng.randrange(1 << 30)}, feats, seen)
                rec.count("programs-with-same-kind-nesting-assembled")
        if i % 5 == 2:
            # the program put together from core objects, with unscheduled blocks and shared statement objects; one
            # block / loop / subcircuit statement is written twice in a row so that there is something to share
            process(ctx, {"prog": duplicate_statement(ctx.rng, prog), "assemble": True, "aseed": ctx.rng.randrange(1 << 30)}, feats, seen)
            rec.count("programs-assembled-with-unscheduled-or-shared-statements")
        if i <= 3:
            rec.sample({"text": sx.to_text(prog)})
    rec.counters["unscheduled-blocks-assembled"] = apiroute.ASSEMBLE_STATS["unscheduled"]
    rec.counters["statement-objects-placed-more-than-once"] = apiroute.ASSEMBLE_STATS["shared"]
    monitors.report_contracts(rec)


def replay(ctx, case):
    st, fails, info = judge(case)
    for clause, detail in fails:
        ctx.rec.violation(sig("C19", clause), detail, case)
