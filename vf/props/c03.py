"""C03 -- emulator state equals the ordered product of gate unitaries on |0..0>."""
from collections import Counter

import numbers
import numpy as np

from .. import sx, gen, lib, meaning as M, monitors, minimise, gateset, gateset_sig, refexec, apiroute
from .common import prog_features, sig, case_prog
from . import execcommon as X

RULE = ("executable programs over the harness native gate set (1-,2-,3-qubit, symmetric and asymmetric, parametrised and "
        "fixed, idle and unitary-less gates) on registers of size 1-6 (thorough: up to 8), qubits reached directly, through "
        "alias chains and through macro parameters, arguments from lets (declared and overridden), loops (0,1,n), macros "
        "calling macros, parallel blocks; a quarter of the circuits are re-assembled from core objects with every gate "
        "statement made by a keyword call in random keyword order; plus basis-state probes (X-only programs through aliases). Oracle = independent "
        "tensor-contraction simulator on the reference meaning of the input IR. non-trivial = at least one subcircuit with "
        "a gate that has a unitary; distinct = S-expression + overrides")
ASSUMPTIONS = ["harness native gate set and its matrices (vf/gateset_sig.py)", "reference executor vf/refexec.py",
               "programs rejected by the emulator with JaqalError are judged by C12/C13/C14, not here"]
TIERS = {"quick": {"shards": 8, "budget_s": 180}, "thorough": {"shards": 16, "budget_s": 420}}
REQUIRE = {"overrides-applied-after-macro-expansion:PA": 60, "overrides-applied-after-macro-expansion:ML": 100, "overrides-applied-after-macro-expansion:PML": 100, "run-through-text-entry-point:string": 200, "run-through-text-entry-point:file": 200, "calls-of-stretched-variants": 500, "sections-with-a-repeated-prepare": 300, "busy-gates-with-unitary-inserted": 300, "keyword-calls-in-another-order": 500, "gate-set-variant:B": 100, "gate-set-variant:A": 100, "states-compared": 300, "sections-applying-a-gate-at-near-twin-arguments": 500, "gate:2q-asym": 50, "gate:3q": 20, "via-alias": 100, "via-macro": 50, "override-used": 30,
           "loop-in-section": 30, "probe:basis": 50, "probe:moved-alias": 100}
ATOL = 1e-9


def judge(case):
    prog = case_prog(case)
    ov = dict(case.get("ov") or {})
    variant = case.get("variant", "A")
    st, s = X.setup(prog, ov, variant=variant)
    if st != "ok":
        return st, [], None
    P = s.P
    written_differs = None
    try:
        # the reference below is read from the circuit the parser made; the program AS WRITTEN (the model the text was
        # rendered from) has to mean the same, number for number, qubit for qubit
        tree_w = M.full_meaning(M.core_from_sx(prog), env=ov or {})
        if not M.tree_equal(tree_w, s.tree):
            written_differs = M.first_diff(tree_w, s.tree)
    except (M.MeaningError, M.OracleError):
        tree_w = None
    try:
        scan = P.flat_scan()
    except refexec.Reject as ex:
        return "skipped:not-well-bracketed:" + ex.rule, [], None
    if P.overlap() is not None:
        return "skipped:overlapping-parallel", [], None
    if P.repeated_qubit_gate() is not None:
        return "skipped:gate-on-repeated-qubit", [], None
    if scan["trailing_gates"]:
        return "skipped:trailing-gates", [], None
    subs = scan["subs"]
    info = {"subs": len(subs), "n": s.n, "written": int(tree_w is not None)}
    if written_differs is not None:
        return "ok", [("circuit-as-parsed-differs-from-the-program-as-written", {"diff": written_differs})], info
    if case.get("api") is not None:
        # the same circuit re-assembled from core objects, gate statements made by keyword calls in random order
        oa = lib.outcome(apiroute.rebuild_with_keyword_calls, s.c, case["api"])
        if oa[0] != "ok":
            return "ok", [("api-rebuild-failed:" + oa[1], {"error": oa[2]})], info
        s.c, st_api = oa[1]
        info["api"] = st_api
    if ov and case.get("order") == "ML":
        # macros expanded while the lets are still symbolic; the overrides reach the expanded circuit
        om = lib.outcome(lib.expand_macros, s.c)
        if om[0] != "ok":
            return "skipped:expand-macros-first-rejected", [], info
        s.c = om[1]
        info["order"] = "ML"
    elif ov and case.get("order") == "PA" and case.get("api") is None:
        # the parser substitutes lets and aliases itself (expand_let_map) under the overrides
        op = lib.outcome(lib.parse, s.text, X.native(variant), expand_let_map=True, override_dict=dict(ov))
        if op[0] != "ok":
            return "skipped:parser-options-rejected", [], info  # fill_in_map documents what it cannot write out
        s.c = op[1]
        ov = None
        info["order"] = "PA"
    elif ov and case.get("order") == "PML" and case.get("api") is None:
        # the parser does it: macros expanded, then lets substituted under the overrides; the result is run as it is
        op = lib.outcome(lib.parse, s.text, X.native(variant), expand_macro=True, expand_let=True, override_dict=dict(ov))
        if op[0] != "ok":
            return "skipped:parser-options-rejected", [], info
        s.c = op[1]
        ov = None
        info["order"] = "PML"
    entry = case.get("entry") if (variant == "A" and not ov and case.get("api") is None and not info.get("order")) else None
    if entry:
        info["entry"] = entry
    o = X.run(s, ov, seed=case.get("npseed", 1), entry=entry)
    if o[0] == "budget":
        return "skipped:step-budget", [], info
    if o[0] == "jaqal":
        return "skipped:emulator-rejected", [], info
    if o[0] == "exc":
        return "ok", [("emulator-raised:" + o[1], {"error": o[2]})], info
    res = o[1]
    observed_log = list(gateset.EVENT_LOG)
    fails = []
    rs, ros = X.result_view(res)
    if len(rs) != len(subs):
        fails.append(("subcircuit-count", {"expected": len(subs), "got": len(rs)}))
        return "ok", fails, info
    ref_log = []
    compared = 0
    straddle = set(P.straddling(subs))
    if straddle:
        return "skipped:straddling-subcircuit", [], info
    for i, sc in enumerate(rs):
        try:
            ref = P.sub_state(subs, i, ref_log)
        except refexec.Reject as ex:
            return "skipped:reference-reject:" + ex.rule, [], info
        if ref is None or sc["state"] is None:
            fails.append(("no-state", {"index": i}))
            continue
        compared += 1
        if sc["state"].shape != ref.shape:
            fails.append(("state-shape", {"index": i, "got": sc["state"].shape, "expected": ref.shape}))
            continue
        err = float(np.abs(sc["state"] - ref).max())
        if err > ATOL:
            fails.append(("state-differs", {"index": i, "maxerr": err, "expected": ref, "got": sc["state"]}))
            break
        perr = float(np.abs(sc["probs"] - np.abs(ref) ** 2).max())
        if perr > ATOL:
            fails.append(("probabilities-differ", {"index": i, "maxerr": perr}))
            break
    info["compared"] = compared

    def norm_log(log):
        # integers exactly (2**53 and 2**53 + 1 are different arguments), other numbers to ten places
        return Counter((n, tuple(int(a) if (isinstance(a, numbers.Integral) and not isinstance(a, bool)) else round(float(a), 10) for a in args))
                       for n, args in log)

    if not fails and norm_log(observed_log) != norm_log(ref_log):
        a, b = norm_log(observed_log), norm_log(ref_log)
        fails.append(("gate-stream-differs", {"only-emulator": list((a - b).items())[:5], "only-reference": list((b - a).items())[:5]}))
    info["events"] = len(observed_log)
    return "ok", fails, info


def _clauses(case):
    return {f[0] for f in judge(case)[1]}


def feature_counts(rec, prog):
    macros = {s[1] for s in prog[1:] if s[0] == "macro"}
    reg = [s[1] for s in prog[1:] if s[0] == "register"]
    for s in sx.walk(prog):
        if s[0] == "gate":
            nm = s[1]
            if nm in ("CX", "CRy"):
                rec.count("gate:2q-asym")
            elif nm in ("CP", "MS"):
                rec.count("gate:2q-sym")
            elif nm == "CCX":
                rec.count("gate:3q")
            elif nm.startswith("I_"):
                rec.count("gate:idle")
            elif nm in ("NOP", "NOP2"):
                rec.count("gate:no-unitary")
            if nm in macros:
                rec.count("via-macro")
            for a in s[2:]:
                if isinstance(a, tuple) and reg and a[1] != reg[0]:
                    rec.count("via-alias")
                elif isinstance(a, str) and a not in ("",) and not reg.count(a):
                    pass
        if s[0] == "loop":
            rec.count("loop-in-section")


def process(ctx, case, seen):
    rec = ctx.rec
    prog = case_prog(case)
    st, fails, info = judge(case)
    nontrivial = bool(info and info.get("compared") and info.get("events"))
    rec.case([prog, sorted((case.get("ov") or {}).items())], nontrivial=nontrivial)
    if st != "ok":
        rec.count(":".join(st.split(":")[:3]))
        if st.startswith("inconclusive"):
            rec.inconc(st)
        return
    rec.count("judged")
    rec.count("states-compared", info.get("compared", 0))
    rec.count("parsed-circuits-compared-with-the-program-as-written", info.get("written", 0))
    rec.count("unitary-evaluations-observed", info.get("events", 0))
    rec.count("n=%d" % info["n"])
    rec.count("gate-set-variant:" + case.get("variant", "A"))
    if info.get("entry"):
        rec.count("run-through-text-entry-point:" + info["entry"])
    if info.get("order"):
        rec.count("overrides-applied-after-macro-expansion:" + info["order"])
    if info.get("api"):
        rec.count("circuits-reassembled-from-core-objects")
        rec.count("keyword-calls-in-another-order", info["api"]["reordered"])
    feature_counts(rec, prog)
    if case.get("ov"):
        rec.count("override-used")
    if case.get("probe"):
        rec.count("probe:" + case["probe"])
    f = prog_features(prog)
    for clause, detail in fails:
        key = (clause, tuple(sorted(f)))
        seen[key] = seen.get(key, 0) + 1
        if seen[key] > 2:
            rec.count("unminimised-repeat:" + clause)
            continue
        base = {k: v for k, v in case.items() if k != "prog"}
        if "api" in base and clause in _clauses(dict({k: v for k, v in base.items() if k != "api"}, prog=prog)):
            base.pop("api")  # fails for the parsed circuit as well: report the simpler case
        small = minimise.minimise(prog, lambda p: clause in _clauses(dict(base, prog=p)), budget=200)
        small_case = dict(base, prog=small)
        d2 = [x for x in judge(small_case)[1] if x[0] == clause]
        feats = prog_features(small)
        if small_case.get("ov"):
            feats.add("override")
        if "api" in small_case:
            feats.add("statements-made-by-keyword-calls")
        if small_case.get("entry"):
            feats.add("run-through-" + small_case["entry"] + "-entry-point")
        rec.violation(sig("C03", clause, feats), d2[0][1] if d2 else detail, small_case)


def insert_busy(rng, prog):
    """Put a call of the busy native gate (a BusyGateDefinition that has an ideal unitary, e.g. a global entangling
    pulse) into the top-level sequence of some prepare/measure sections."""
    reg = [s for s in prog[1:] if s[0] == "register"]
    if len(reg) != 1 or not isinstance(reg[0][2], int) or reg[0][2] < 2:
        return prog, 0
    name, n = reg[0][1], reg[0][2]
    out = []
    k = 0
    open_ = False
    for s in prog[1:]:
        out.append(s)
        if s == ("gate", "prepare_all"):
            open_ = True
        elif s == ("gate", "measure_all"):
            open_ = False
        if open_ and s[0] not in sx.HEADER and s[0] != "macro" and rng.random() < 0.4:
            i, j = rng.sample(range(n), 2)
            out.append(("gate", "GZZ", ("array_item", name, i), ("array_item", name, j), rng.choice([0.3, 1.1, -2.2, 1.5707963267948966])))
            k += 1
    return ("circuit",) + tuple(out), k


def basis_probe(rng, maxn):
    """X-only program through an alias chain: a bit-order or alias error moves the single 1."""
    g = gen.ExecGen(rng, reg_size=(2, maxn), n_maps=(1, 4), n_macros=(0, 0), allow_macros=False, n_lets=(0, 2))
    g.gen_header()
    k = rng.randint(1, min(3, g.regsize))
    qs = rng.sample(range(g.regsize), k)
    body = [("gate", "prepare_all")] + [("gate", "X", g.qref_for(q)) for q in qs] + [("gate", "measure_all")]
    return ("circuit",) + tuple(g.header) + tuple(body)


def stretch_some(rng, prog):
    """Some calls of native gates replaced by calls of their stretched variants (gate set "As": every gate also exists as
    <name>_s with one more, trailing, float): the state must not care about the factor."""
    n = [0]

    def rw(s):
        if not isinstance(s, tuple):
            return s
        if s[0] == "gate" and s[1].startswith("I_") and s[1][2:] in gateset_sig.RAW and s[1][2:] not in gateset_sig.BUSY and rng.random() < 0.5:
            # the stretched variant of an idle gate is an idle gate
            n[0] += 1
            return ("gate", s[1] + gateset_sig.STRETCH_SUFFIX) + s[2:] + (rng.choice([0.0, 0.5, 2.5]),)
        if s[0] == "gate" and s[1] in gateset_sig.RAW and gateset_sig.RAW[s[1]][1] is not None and rng.random() < 0.5:
            n[0] += 1
            return ("gate", s[1] + gateset_sig.STRETCH_SUFFIX) + s[2:] + (rng.choice([0.0, 0.5, 1.0, 2.5, 7.0]),)
        return tuple(rw(x) for x in s)

    return rw(prog), n[0]


def repeat_prepare(rng, prog):
    """A second prepare_all somewhere inside a top-level section: the subcircuit starts over, the gates before it are
    discarded (they do not act on the reported state)."""
    items = list(prog[1:])
    spots = []
    open_ = False
    for i, s in enumerate(items):
        if s == ("gate", "prepare_all"):
            open_ = True
        elif s == ("gate", "measure_all"):
            open_ = False
        elif open_ and s[0] not in sx.HEADER and s[0] != "macro":
            spots.append(i + 1)
    if not spots:
        return prog, 0
    i = rng.choice(spots)
    items.insert(i, ("gate", "prepare_all"))
    return ("circuit",) + tuple(items), 1


def moved_alias_probe(rng, maxn):
    """X-only program whose aliases are bounded by lets that the override dictionary MOVES; the aliases are used
    directly at top level, inside macros that mention no constant at all, through an index parameter and through a
    second-level alias.  Returns (program, overrides)."""
    n = rng.randint(3, max(3, maxn))
    step = rng.choice([1, 1, 2]) if n >= 4 else 1
    starts = [v for v in range(0, n - 1) if len(range(v, n, step)) >= 2]
    s0, s1 = rng.sample(starts, 2) if len(starts) >= 2 else (starts[0], starts[0])
    hdr = [("let", "s", s0), ("let", "st", step), ("register", "q", n), ("map", "a", "q", "s", None, "st"), ("map", "b", "a", 1, None, None),
           ("map", "one", "a", 1)]
    macros = [("macro", "direct", ("sequential_block", ("gate", "X", ("array_item", "a", 0)))),
              ("macro", "second", ("sequential_block", ("gate", "X", ("array_item", "b", 0)))),
              ("macro", "single", ("sequential_block", ("gate", "X", "one"))),
              ("macro", "pick", "k", ("sequential_block", ("gate", "X", ("array_item", "a", "k"))))]
    calls = [("gate", "direct"), ("gate", "second"), ("gate", "single"), ("gate", "pick", 1), ("gate", "X", ("array_item", "a", 0))]
    rng.shuffle(calls)
    body = []
    for c in calls[:rng.randint(2, 5)]:
        body += [("gate", "prepare_all"), c, ("gate", "measure_all")]
    return ("circuit",) + tuple(hdr) + tuple(macros) + tuple(body), {"s": s1}


TWIN_INTS = [(2 ** 53, 2 ** 53 + 1), (2 ** 53 + 1, 2 ** 53 + 2), (2 ** 63 - 1, 2 ** 63 + 1), (10 ** 30 + 1, 10 ** 30 + 3), (-(2 ** 53) - 1, -(2 ** 53)),
             (2 ** 64 + 5, 2 ** 64 + 2), (7, 7 + 2 ** 60), (1, 9)]
TWIN_FLOATS = [(0.1, 0.10000000000000002), (1.0, 1.0000000000000002), (3.141592653589793, 3.1415926535897936), (1e-300, 2e-300),
               (0.5, 0.5000001), (2.0, 2), (1e16, 1e16 + 2), (0.30000000000000004, 0.3)]


def near_twin_section(rng, prog):
    """One more prepare/measure section in which one gate is applied to one qubit two or three times with classical
    arguments that are different numbers but near twins: integers that the same double stands for, doubles one ulp
    apart, an integer and the float of that value.  Each application is the gate at ITS argument."""
    reg = [s for s in prog[1:] if s[0] == "register"]
    if len(reg) != 1 or not isinstance(reg[0][2], int) or any(s[0] == "macro" and s[1] == "vftwin" for s in prog[1:]):
        return prog, 0
    name, n = reg[0][1], reg[0][2]
    q = ("array_item", name, rng.randrange(n))
    if rng.random() < 0.5:
        a, b = rng.choice(TWIN_INTS)
        mk = lambda v: ("gate", "PW", q, v)  # noqa: E731
    else:
        a, b = rng.choice(TWIN_FLOATS)
        gname = rng.choice(["Rz", "Rx", "CP"])
        if gname == "CP" and n >= 2:
            q2 = ("array_item", name, (q[2] + 1) % n)
            mk = lambda v: ("gate", "CP", q, v, q2)  # noqa: E731
        else:
            gname = "Rz" if gname == "CP" else gname
            mk = lambda v: ("gate", gname, q, v)  # noqa: E731
    if rng.random() < 0.5:
        a, b = b, a
    seq = [mk(a), mk(b)] + ([mk(a)] if rng.random() < 0.4 else [])
    shape = rng.choice(["flat", "loop", "macro", "macro-in-loop"])
    macros = []
    if shape == "flat":
        sec = seq
    elif shape == "loop":
        sec = [("loop", 2, ("sequential_block",) + tuple(seq))]
    else:
        macros = [("macro", "vftwin", "vfa", "vfv", ("sequential_block", ("gate",) + (mk("vfv")[1],) + tuple("vfa" if x == q else x for x in mk("vfv")[2:])))]
        calls = [("gate", "vftwin", q, g_[3] if g_[1] != "CP" else g_[3]) for g_ in seq]
        sec = calls if shape == "macro" else [("loop", 2, ("sequential_block",) + tuple(calls))]
    items = list(prog[1:])
    k = max([j for j, s in enumerate(items) if s[0] in sx.HEADER or s[0] == "macro"], default=-1)
    items = items[:k + 1] + macros + items[k + 1:]
    items += [("gate", "prepare_all"), ("gate", "H", q)] + sec + [("gate", "measure_all")]
    return ("circuit",) + tuple(items), 1


def make_override(rng, prog):
    ov = {}
    for s in prog[1:]:
        if s[0] == "let" and isinstance(s[2], float) and rng.random() < 0.6:
            ov[s[1]] = rng.choice([0.0, 1.25, -2.5, 3.141592653589793, rng.uniform(-6, 6)])
        elif s[0] == "let" and isinstance(s[2], int) and 0 <= s[2] <= 4 and rng.random() < 0.4:
            # constants used as index / alias bound / count: overrides that make a reference invalid are skipped by the judge
            ov[s[1]] = rng.randint(0, 3)
    return ov


def shard(ctx):
    rec = ctx.rec
    monitors.install_contracts()
    maxn = 6 if ctx.quick else 8
    n = ctx.scale(12000, 60000)
    seen = {}
    i = 0
    while i < n and not rec.expired():
        i += 1
        rng = ctx.rng
        r = rng.random()
        if r < 0.06:
            mp, mov = moved_alias_probe(rng, maxn)
            case = {"prog": mp, "ov": mov, "probe": "moved-alias"}
        elif r < 0.2:
            case = {"prog": basis_probe(rng, maxn), "probe": "basis"}
        else:
            size = rng.choice([1, 2, 2, 3, 3, 4, 4, 5, maxn])
            g = gen.ExecGen(rng, reg_size=(size, size), max_depth=rng.choice([1, 2, 3]), body_len=(1, 3),
                            n_maps=(0, 4), n_macros=(0, 3), p_let_reg=0.2, p_let_arg=0.5)
            prog = g.program()
            if rng.random() < 0.3:
                prog, nb = insert_busy(rng, prog)
                rec.count("busy-gates-with-unitary-inserted", nb)
            if rng.random() < 0.12:
                prog, nr = repeat_prepare(rng, prog)
                rec.count("sections-with-a-repeated-prepare", nr)
            if rng.random() < 0.15:
                prog, nt = near_twin_section(rng, prog)
                rec.count("sections-applying-a-gate-at-near-twin-arguments", nt)
            case = {"prog": prog}
            if rng.random() < 0.3:
                ov = make_override(rng, prog)
                if ov:
                    case["ov"] = ov
                    case["order"] = rng.choice(["LM", "ML", "PML", "PA"])
        case["npseed"] = rng.randrange(1 << 30)
        case["variant"] = "B" if rng.random() < 0.35 else "A"
        if case["variant"] == "A" and not case.get("probe") and rng.random() < 0.2:
            case["prog"], ns = stretch_some(rng, case["prog"])
            if ns:
                case["variant"] = "As"
                rec.count("calls-of-stretched-variants", ns)
        if rng.random() < 0.25:
            case["api"] = rng.randrange(1 << 30)
        elif case["variant"] == "A" and not case.get("ov") and rng.random() < 0.3:
            # the text-level entry points: the program names its gates (from vf.pulsemod usepulses *) and is run as a
            # string or from a file
            case["entry"] = rng.choice(["string", "file"])
        process(ctx, case, seen)
        if i <= 3:
            rec.sample({"ov": case.get("ov"), "text": sx.to_text(case["prog"])})
    monitors.report_contracts(rec)


def replay(ctx, case):
    st, fails, info = judge(case)
    prog = case_prog(case)
    for clause, detail in fails:
        feats = prog_features(prog)
        if case.get("ov"):
            feats.add("override")
        ctx.rec.violation(sig("C03", clause, feats), detail, case)
