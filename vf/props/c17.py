"""C17 -- Jaqal text, the builder API and Q-syntax build the same circuit."""
import random

from .. import sx, gen, lib, meaning as M, monitors, minimise
from .common import sig, prog_features, case_prog
from . import builder_route
from . import execcommon as X

RULE = ("programs in the common subset of the three front ends: lets (named / anonymous, int / float), one register (named / "
        "anonymous, literal or let size), gates with numeric, let and qubit arguments, nested sequential / parallel blocks, loops "
        "and subcircuits with literal or let-valued counts, bodies that do and do not begin with prepare_all / a subcircuit, and "
        "user-chosen names of the forms __r<k> and __c<k> for registers and lets. Each program is built four ways -- Jaqal text, "
        "S-expression build(), CircuitBuilder object API, Python Q-syntax -- and compared pairwise with ==, by generated text and "
        "by the harness's reference meaning; auto-generated names are read back from the Q circuit. Second family (full language "
        "incl. macros, aliases, pulse imports; no Q-syntax): text vs build() vs CircuitBuilder used the documented way -- objects "
        "built at once (the default of let/register/map/macro/loop) mixed at random with unevaluated=True, names or returned "
        "objects as references, qubits as reg[i] objects or expressions; the circuits must be ==, print the same text, have the "
        "program's meaning, and behave alike under expand_macros, fill_in_let, expand_subcircuits and the used-qubit analysis. "
        "non-trivial = program has an anonymous object, a nested block or a macro; distinct = program spec / (program, choices)")
ASSUMPTIONS = ["the auto-naming scheme is not prescribed: names are read back; only freshness and equality of the circuits are judged"]
TIERS = {"quick": {"shards": 8, "budget_s": 200}, "thorough": {"shards": 16, "budget_s": 300}}
REQUIRE = {"text-route-with-random-layout-and-comments": 1500, "qsyntax-functions-called-twice": 1500, "programs": 1500, "anonymous-let": 300, "anonymous-register": 300, "user-name-like-auto-name": 200,
           "implicit-wrap-expected": 300, "no-wrap-expected": 300, "pairs-compared": 4000, "subcircuit-with-count": 100,
           "full:programs": 1000, "full:programs-with-the-gate-set-in-force": 500, "full:near-twin-number-literals": 150, "full:macro-eager": 300, "full:loop-eager": 100, "full:map-eager": 200, "full:behaviour-compared": 3000,
           "full:eager-macro-calling-macro": 100}


# ---------------------------------------------------------------------------------------
# program specs: S-expressions in which anonymous objects are named "?c<i>" / "?r"
# ---------------------------------------------------------------------------------------

def gen_spec(rng):
    lets = []
    names_pool = ["a", "b", "th", "n", "__c0", "__c1", "__r0", "__c2", "k"]
    rng.shuffle(names_pool)
    nl = rng.randint(0, 4)
    for i in range(nl):
        anon = rng.random() < 0.5
        name = "?c%d" % i if anon else names_pool.pop()
        if rng.random() < 0.5:
            v = rng.randint(1, 4)
        else:
            v = rng.choice([0.5, -1.25, 3.141592653589793, 2.5e-07, 1e16, rng.uniform(-6, 6)])
        lets.append((name, v, anon))
    int_lets = [(n, v) for n, v, a in lets if isinstance(v, int)]
    size = rng.randint(1, 4)
    anon_reg = rng.random() < 0.5
    rname = "?r" if anon_reg else rng.choice([n for n in ["q", "r", "__r0", "__c0", "__r1", "reg"] if n not in [l[0] for l in lets]])
    size_expr = size
    cand = [n for n, v in int_lets if v == size]
    if cand and rng.random() < 0.5:
        size_expr = rng.choice(cand)

    def count():
        c = rng.choice([0, 1, 2, 3])
        cc = [n for n, v in int_lets if v == c]
        if cc and rng.random() < 0.4:
            return rng.choice(cc)
        return c

    def arg():
        r = rng.random()
        if r < 0.45:
            i = rng.randrange(size)
            ii = [n for n, v in int_lets if v == i]
            return ("array_item", rname, rng.choice(ii) if (ii and rng.random() < 0.3) else i)
        if r < 0.65 and lets:
            return rng.choice(lets)[0]
        if r < 0.85:
            return rng.choice([0.5, -0.25, 1.5707963267948966, 1e-06, 2.0, 7.25])
        return rng.randint(-3, 9)

    def gate():
        name = rng.choice(["g", "h", "Rx", "Sx", "MS"])
        return ("gate", name) + tuple(arg() for _ in range({"g": 1, "h": 0, "Rx": 2, "Sx": 1, "MS": 3}[name]))

    def stmt(ctx, depth, in_sub, in_par):
        opts = ["gate"] * 5
        if depth < 3:
            if ctx in ("top", "seq"):
                opts += ["par", "loop"]
                if not in_sub and not in_par:
                    opts += ["sub"]
            if ctx in ("top", "par"):
                opts += ["seq"]
        k = rng.choice(opts)
        if k == "gate":
            return gate()
        if k == "par":
            return ("parallel_block",) + tuple(stmt("par", depth + 1, in_sub, True) for _ in range(rng.randint(0, 3)))
        if k == "seq":
            return ("sequential_block",) + tuple(stmt("seq", depth + 1, in_sub, in_par) for _ in range(rng.randint(0, 3)))
        if k == "loop":
            return ("loop", count(), ("sequential_block",) + tuple(stmt("seq", depth + 1, in_sub, in_par) for _ in range(rng.randint(0, 3))))
        cnt = rng.choice(["", "", count(), rng.choice([0, 2, 10, 300])])
        return ("subcircuit_block", cnt) + tuple(stmt("seq", depth + 1, True, in_par) for _ in range(rng.randint(0, 3)))

    body = [stmt("top", 0, False, False) for _ in range(rng.randint(0, 4))]
    r = rng.random()
    if r < 0.25:
        body.insert(0, ("gate", "prepare_all"))
        body.append(("gate", "measure_all"))
    elif r < 0.35:
        body.insert(0, ("loop", 2, ("sequential_block", ("gate", "prepare_all"), ("gate", "measure_all"))))
    elif r < 0.45:
        body.insert(0, ("subcircuit_block", "", gate()))
    return {"lets": lets, "reg": (rname, size_expr, anon_reg), "body": body}


def begins_with_prepare(body):
    if not body:
        return False
    s = body[0]
    k = s[0]
    if k == "gate":
        return s[1] == "prepare_all"
    if k == "subcircuit_block":
        return True
    if k == "loop":
        return begins_with_prepare(list(s[2][1:]))
    if k in ("sequential_block", "parallel_block"):
        return begins_with_prepare(list(s[1:]))
    return False


def to_program(spec, names):
    """Spec -> program S-expression with anonymous names replaced (names: placeholder -> real)."""
    def ren(x):
        if isinstance(x, tuple):
            return tuple(ren(v) for v in x)
        if isinstance(x, str) and x in names:
            return names[x]
        return x

    body = list(spec["body"])
    if not begins_with_prepare(body):
        body = [("gate", "prepare_all")] + body + [("gate", "measure_all")]
    hdr = [("let", n, v) for n, v, a in spec["lets"]] + [("register", spec["reg"][0], spec["reg"][1])]
    return ren(("circuit",) + tuple(hdr) + tuple(body))


# ---------------------------------------------------------------------------------------
# the four front ends
# ---------------------------------------------------------------------------------------

def via_qsyntax(spec):
    from jaqalpaq.qsyntax import qsyntax

    def fn(Q):
        objs = {}
        for n, v, anon in spec["lets"]:
            objs[n] = Q.let(v) if anon else Q.let(v, n)
        rn, size, anon = spec["reg"]
        sz = objs[size] if isinstance(size, str) else size
        reg = Q.register(sz) if anon else Q.register(sz, rn)
        objs[rn] = reg

        def arg(a):
            if isinstance(a, tuple):
                idx = a[2]
                return reg[objs[idx] if isinstance(idx, str) else idx]
            if isinstance(a, str):
                return objs[a]
            return a

        def emit(s):
            k = s[0]
            if k == "gate":
                getattr(Q, s[1])(*[arg(a) for a in s[2:]])
            elif k == "sequential_block":
                with Q.sequential():
                    for x in s[1:]:
                        emit(x)
            elif k == "parallel_block":
                with Q.parallel():
                    for x in s[1:]:
                        emit(x)
            elif k == "loop":
                c = s[1]
                with Q.loop(objs[c] if isinstance(c, str) else c):
                    for x in s[2][1:]:
                        emit(x)
            elif k == "subcircuit_block":
                c = s[1]
                if c == "":
                    cm = Q.subcircuit()
                else:
                    cm = Q.subcircuit(objs[c] if isinstance(c, str) else c)
                with cm:
                    for x in s[2:]:
                        emit(x)

        for s in spec["body"]:
            emit(s)

    decorated = qsyntax.circuit(fn)
    first = decorated()
    # a decorated function is an ordinary function: every call must build the same circuit again
    again = decorated()
    CALLS_AGAIN[0] += 1
    try:
        same = (again == first) and (first == again)
    except Exception:
        same = False
    t1, t2 = lib.outcome(lib.generate, first), lib.outcome(lib.generate, again)
    if not same or t1[:2] != t2[:2]:
        raise SecondCallDiffers({"first": t1[1] if t1[0] == "ok" else t1[:3], "second": t2[1] if t2[0] == "ok" else t2[:3]})
    return first


CALLS_AGAIN = [0]


class SecondCallDiffers(Exception):
    def __init__(self, detail):
        super().__init__("second call of the same decorated function builds another circuit")
        self.detail = detail


def via_builder(prog):
    from jaqalpaq.core import CircuitBuilder
    from jaqalpaq.core.circuitbuilder import SequentialBlockBuilder

    b = CircuitBuilder()
    objs = {}
    for s in prog[1:]:
        if s[0] == "let":
            objs[s[1]] = b.let(s[1], s[2])
        elif s[0] == "register":
            objs[s[1]] = b.register(s[1], objs[s[2]] if isinstance(s[2], str) else s[2])

    def arg(a):
        if isinstance(a, tuple):
            idx = a[2]
            return objs[a[1]][objs[idx] if isinstance(idx, str) else idx]
        if isinstance(a, str):
            return objs[a]
        return a

    def emit(bb, s):
        k = s[0]
        if k == "gate":
            bb.gate(s[1], *[arg(a) for a in s[2:]])
        elif k == "sequential_block":
            nb = bb.block(parallel=False)
            for x in s[1:]:
                emit(nb, x)
        elif k == "parallel_block":
            nb = bb.block(parallel=True)
            for x in s[1:]:
                emit(nb, x)
        elif k == "loop":
            inner = SequentialBlockBuilder()
            for x in s[2][1:]:
                emit(inner, x)
            c = s[1]
            bb.loop(objs[c] if isinstance(c, str) else c, inner, unevaluated=True)
        elif k == "subcircuit_block":
            c = s[1]
            nb = bb.subcircuit() if c == "" else bb.subcircuit(objs[c] if isinstance(c, str) else c)
            for x in s[2:]:
                emit(nb, x)

    for s in prog[1:]:
        if s[0] not in ("let", "register"):
            emit(b, s)
    return b.build()


def judge(case):
    spec = case["spec"]
    spec = {"lets": [tuple(x) for x in spec["lets"]], "reg": tuple(spec["reg"]), "body": [sx.unnorm(s) if isinstance(s, list) else s for s in spec["body"]]}
    fails = []
    info = {"pairs": 0}
    user_names = [n for n, v, a in spec["lets"] if not a] + ([] if spec["reg"][2] else [spec["reg"][0]])
    try:
        oq = ("ok", via_qsyntax(spec))
    except SecondCallDiffers as ex:
        return "ok", [("qsyntax:second-call-of-the-same-function-differs", ex.detail)], info
    except Exception as ex:
        from jaqalpaq.error import JaqalError

        oq = ("jaqal" if isinstance(ex, JaqalError) else "exc", type(ex).__name__, str(ex)[:300])
    if oq[0] != "ok":
        clash = any(n.startswith("__") for n in user_names)
        fails.append(("qsyntax-fails:%s%s" % (oq[1], ":user-name-like-auto-name" if clash else ""), {"error": oq[2], "user_names": user_names}))
        return "ok", fails, info
    cq = oq[1]
    # read the auto-generated names back
    names = {}
    qlets = list(cq.constants)
    if len(qlets) != len(spec["lets"]):
        fails.append(("qsyntax:let-count", {"expected": len(spec["lets"]), "got": qlets}))
        return "ok", fails, info
    for (n, v, anon), real in zip(spec["lets"], qlets):
        if anon:
            names[n] = real
        elif real != n:
            fails.append(("qsyntax:user-let-renamed", {"expected": n, "got": real}))
    regs = [r for r in cq.registers]
    if len(regs) != 1:
        fails.append(("qsyntax:register-count", {"got": regs}))
        return "ok", fails, info
    if spec["reg"][2]:
        names[spec["reg"][0]] = regs[0]
    elif regs[0] != spec["reg"][0]:
        fails.append(("qsyntax:user-register-renamed", {"expected": spec["reg"][0], "got": regs[0]}))
    auto = list(names.values())
    if len(set(auto + user_names)) != len(auto + user_names):
        fails.append(("auto-name-collides-with-user-name", {"auto": auto, "user": user_names}))
    prog = to_program(spec, names)
    info["wrap"] = not begins_with_prepare(spec["body"])
    # the text a user writes has its own layout and comments; the circuit must not depend on them
    text = sx.to_text(prog, random.Random(case["lseed"]), comments=True) if case.get("lseed") is not None else sx.to_text(prog)
    ot = lib.outcome(lib.parse, text)
    ob = lib.outcome(lib.build, prog)
    oo = lib.outcome(via_builder, prog)
    routes = {"text": ot, "sexpr": ob, "builder": oo, "qsyntax": oq}
    for name, o in routes.items():
        if o[0] != "ok":
            fails.append(("front-end-rejects:%s:%s" % (name, o[1]), {"error": o[2], "text": text}))
    good = [(n, o[1]) for n, o in routes.items() if o[0] == "ok"]
    try:
        km = M.core_from_sx(prog)
        exp = (M.meaning(km, expand_macros=False), M.declarations(km))
    except M.MeaningError as ex:
        return "inconclusive:model:%s" % ex, fails, info
    gen_texts = {}
    for n, c in good:
        try:
            k = M.core_from_ir(c)
            got = (M.meaning(k, expand_macros=False), M.declarations(k))
        except (M.OracleError, M.MeaningError) as ex:
            fails.append(("unreadable-circuit:%s" % n, {"error": str(ex)[:200]}))
            continue
        if not M.tree_equal(exp, got):
            fails.append(("meaning-differs-from-program:%s" % n, {"diff": M.first_diff(exp, got), "text": text}))
        g = lib.outcome(lib.generate, c)
        gen_texts[n] = g[1] if g[0] == "ok" else repr(g[:3])
    for i in range(len(good)):
        for j in range(i + 1, len(good)):
            (n1, c1), (n2, c2) = good[i], good[j]
            info["pairs"] += 1
            try:
                eq = (c1 == c2) and (c2 == c1)
            except Exception as ex:
                eq = False
            if not eq:
                fails.append(("circuits-unequal:%s-vs-%s" % (n1, n2), {"a": gen_texts.get(n1), "b": gen_texts.get(n2)}))
            elif gen_texts.get(n1) != gen_texts.get(n2):
                fails.append(("generated-text-differs:%s-vs-%s" % (n1, n2), {"a": gen_texts.get(n1), "b": gen_texts.get(n2)}))
    return "ok", fails, info


def _behaviour(c):
    """How a circuit behaves under the passes and analyses (value-level, independent of object identity)."""
    out = {}
    for nm, fn in (("expand_macros", lib.expand_macros), ("fill_in_let", lib.fill_in_let), ("expand_subcircuits", lib.expand_subcircuits)):
        o = lib.outcome(fn, c)
        if o[0] == "ok":
            g = lib.outcome(lib.generate, o[1])
            out[nm] = ("ok", g[1] if g[0] == "ok" else g[:2])
        else:
            out[nm] = (o[0], o[1] if o[0] == "exc" else "")
    o = lib.outcome(lib.used_qubits, c)
    out["used_qubits"] = ("ok", sorted((k, sorted(v)) for k, v in dict(o[1]).items())) if o[0] == "ok" else (o[0], o[1] if o[0] == "exc" else "")
    return out


def _decls(core):
    """Lets, pulse imports, and for every register / alias the fundamental qubits it denotes (a
    defaulted slice stop is a literal in a built circuit and symbolic in the model: compare by value)."""
    ev = M.Evaluator(core, env={}, resolve=True)
    regs = []
    for n, r in core.regs.items():
        regs.append((n, r[0], tuple(ev.elems(r, {})) if r[0] == "R" else ev.qubit(r[2], r[3], {})))
    return (tuple(core.lets.items()), tuple(regs), tuple(core.usepulses))


def judge_full(case):
    prog = case_prog(case)
    if not sx.legal_nesting(prog):
        return "skipped:illegal-nesting", [], {}
    text = sx.to_text(prog, random.Random(case["lseed"]), comments=True) if case.get("lseed") is not None else sx.to_text(prog)
    # with a gate set in force every front end checks calls against the same definitions (and the builder re-checks what
    # was built before the gate set was known)
    native = X.native() if case.get("native") else None
    ot = lib.outcome(lib.parse, text, native)
    if ot[0] != "ok":
        return "skipped:input-rejected", [], {}
    info = {"pairs": 0, "choices": [], "behaviour": 0}
    fails = []
    routes = {"text": ot, "sexpr": lib.outcome(lib.build, prog, native)}
    for tag, seed in (("builder-plain", None), ("builder-mixed", case.get("bseed", 0))):
        o = lib.outcome(builder_route.via_builder, prog, seed, native)
        if o[0] == "ok":
            c, ch = o[1]
            routes[tag] = ("ok", c)
            if seed is not None:
                info["choices"] = sorted(set(ch))
        else:
            routes[tag] = o
    mixed = "+".join(x for x in info["choices"] if x.endswith("eager"))
    for name, o in routes.items():
        if o[0] != "ok":
            fails.append(("full:front-end-rejects:%s:%s" % (name, o[1]), {"error": o[2], "text": text, "choices": info["choices"]}))
    good = [(n, o[1]) for n, o in routes.items() if o[0] == "ok"]
    try:
        km = M.core_from_sx(prog)
        exp = (M.meaning(km, expand_macros=False), M.macro_meanings(km), _decls(km))
    except (M.MeaningError, M.OracleError) as ex:
        return "skipped:no-reference-meaning", fails, info
    gen_texts = {}
    for n, c in good:
        try:
            k = M.core_from_ir(c)
            got = (M.meaning(k, expand_macros=False), M.macro_meanings(k), _decls(k))
        except (M.OracleError, M.MeaningError) as ex:
            fails.append(("full:unreadable-circuit:%s" % n, {"error": str(ex)[:200], "choices": info["choices"]}))
            continue
        if not M.tree_equal(exp, got):
            fails.append(("full:meaning-differs-from-program:%s" % n, {"diff": M.first_diff(exp, got), "text": text, "choices": info["choices"]}))
        g = lib.outcome(lib.generate, c)
        gen_texts[n] = g[1] if g[0] == "ok" else repr(g[:3])
    base = dict(good).get("text")
    ref_beh = _behaviour(base)
    for n, c in good:
        if n == "text":
            continue
        info["pairs"] += 1
        try:
            eq = (c == base) and (base == c)
        except Exception:
            eq = False
        if not eq:
            fails.append(("full:circuits-unequal:text-vs-%s" % n, {"text": gen_texts.get("text"), n: gen_texts.get(n), "choices": info["choices"]}))
            continue
        if gen_texts.get(n) != gen_texts.get("text"):
            fails.append(("full:generated-text-differs:text-vs-%s" % n, {"text": gen_texts.get("text"), n: gen_texts.get(n)}))
            continue
        beh = _behaviour(c)
        info["behaviour"] += 1
        for op in ref_beh:
            if beh[op] != ref_beh[op]:
                fails.append(("full:equal-circuits-behave-differently:%s:%s" % (op, n), {"program": text, "text-route": ref_beh[op], n: beh[op], "choices": info["choices"]}))
                break
    return "ok", fails, info


def _clauses_full(case):
    return {f[0] for f in judge_full(case)[1]}


def process_full(ctx, case, seen):
    rec = ctx.rec
    prog = case_prog(case)
    st, fails, info = judge_full(case)
    macros = [s for s in prog[1:] if s[0] == "macro"]
    rec.case(["full", prog, case.get("bseed")], nontrivial=bool(macros))
    if st != "ok":
        rec.count("full:" + st)
        return
    rec.count("full:programs")
    rec.count("pairs-compared", info["pairs"])
    rec.count("full:behaviour-compared", info["behaviour"])
    for ch in info["choices"]:
        rec.count("full:" + ch)
    names = {m[1] for m in macros}
    if "macro-eager" in info["choices"] and any(x[0] == "gate" and x[1] in names for m in macros for x in sx.walk(m[-1])):
        rec.count("full:eager-macro-calling-macro")
    for clause, detail in fails:
        key = clause
        seen[key] = seen.get(key, 0) + 1
        if seen[key] > 3:
            rec.count("unminimised-repeat:" + clause)
            continue
        base = {k: v for k, v in case.items() if k != "prog"}
        small = minimise.minimise(prog, lambda p: clause in _clauses_full(dict(base, prog=p)), budget=150)
        small_case = dict(base, prog=small)
        st2, f2, info2 = judge_full(small_case)
        d2 = [x for x in f2 if x[0] == clause]
        feats = {x for x in info2.get("choices", []) if x.endswith("eager")}
        rec.violation(sig("C17", clause, feats), d2[0][1] if d2 else detail, small_case)


def process(ctx, case):
    rec = ctx.rec
    spec = case["spec"]
    st, fails, info = judge(case)
    anon_l = any(a for n, v, a in spec["lets"])
    anon_r = spec["reg"][2]
    nested = any(s[0] != "gate" for s in spec["body"])
    rec.case(spec, nontrivial=anon_l or anon_r or nested)
    if st != "ok":
        rec.inconc(st)
        return
    rec.count("programs")
    rec.count("pairs-compared", info.get("pairs", 0))
    rec.counters["qsyntax-functions-called-twice"] = CALLS_AGAIN[0]
    if anon_l:
        rec.count("anonymous-let")
    if anon_r:
        rec.count("anonymous-register")
    if any(n.startswith("__") for n, v, a in spec["lets"] if not a) or (not anon_r and spec["reg"][0].startswith("__")):
        rec.count("user-name-like-auto-name")
    if "wrap" in info:
        rec.count("implicit-wrap-expected" if info["wrap"] else "no-wrap-expected")
    if any(s[0] == "subcircuit_block" and s[1] != "" for b in spec["body"] for s in sx.walk(b)):
        rec.count("subcircuit-with-count")
    for clause, detail in fails:
        rec.violation(sig("C17", clause), detail, case)


def shard(ctx):
    rec = ctx.rec
    monitors.install_contracts()
    n = ctx.scale(9000, 100000)
    i = 0
    seen = {}
    while i < n and not rec.expired():
        i += 1
        spec = gen_spec(ctx.rng)
        case = {"spec": spec}
        if ctx.rng.random() < 0.5:
            case["lseed"] = ctx.rng.randrange(1 << 30)
            rec.count("text-route-with-random-layout-and-comments")
        process(ctx, case)
        if i <= 3:
            rec.sample(spec)
        if i % 4 == 0:
            rng = ctx.rng
            g = gen.ProgGen(rng, p_hostile_names=0.0, max_depth=rng.choice([2, 3]), wild_numbers=False, macro_sub=rng.random() < 0.5,
                            n_macros=(1, 4), p_usepulses=0.2)
            fp = g.program()
            if rng.random() < 0.25:
                # two macros whose bodies differ only in how one number is written (1 / 1.0, 0.0 / -0.0): whichever parts a
                # front end builds together or apart, each keeps its own literal
                a, b = rng.choice([(1, 1.0), (1.0, 1), (0.0, -0.0), (-1, -1.0), (0, 0.0), (2, 2.0)])
                hdr_end = max([k for k, x in enumerate(fp) if isinstance(x, tuple) and x[0] in sx.HEADER] + [0])
                fp = fp[:hdr_end + 1] + (("macro", "tw1", ("sequential_block", ("gate", "tw", a))),
                                         ("macro", "tw2", ("sequential_block", ("gate", "tw", b)))) + fp[hdr_end + 1:]
                rec.count("full:near-twin-number-literals")
            process_full(ctx, {"prog": fp, "bseed": rng.randrange(1 << 30), "lseed": rng.randrange(1 << 30) if rng.random() < 0.5 else None}, seen)
        if i % 8 == 5:
            # programs over the native gate set, every front end with that gate set in force
            rng = ctx.rng
            size = rng.choice([2, 3])
            g = gen.ExecGen(rng, reg_size=(size, size), max_depth=rng.choice([2, 3]), body_len=(1, 3), n_maps=(0, 3), n_macros=(0, 3),
                            p_sub_count=0.8, macro_sub=rng.random() < 0.5)
            process_full(ctx, {"prog": g.program(), "bseed": rng.randrange(1 << 30), "lseed": None, "native": True}, seen)
            rec.count("full:programs-with-the-gate-set-in-force")
    monitors.report_contracts(rec)


def replay(ctx, case):
    if "prog" in case:
        st, fails, info = judge_full(case)
        for clause, detail in fails:
            ctx.rec.violation(sig("C17", clause, {x for x in info.get("choices", []) if x.endswith("eager")}), detail, case)
        return
    st, fails, info = judge(case)
    for clause, detail in fails:
        ctx.rec.violation(sig("C17", clause), detail, case)
