"""Helpers shared by the property modules."""
import re

from .. import sx, meaning as M


def header_view(core):
    """Comparable view of header data read from a core tree (IR or model)."""
    lets = tuple((k, v) for k, v in core.lets.items())
    return {"lets": lets, "regs": M.declarations(core)[1], "usepulses": tuple(core.usepulses),
            "macros": tuple(core.macros)}


def lets_equal(a, b):
    if len(a) != len(b):
        return False
    for (k1, v1), (k2, v2) in zip(a, b):
        if k1 != k2 or not M.tree_equal(v1, v2):
            return False
    return True


def header_diff(ca, cb, what=("lets", "regs", "usepulses", "macros")):
    ha, hb = header_view(ca), header_view(cb)
    out = []
    for k in what:
        if k == "lets":
            if not lets_equal(ha[k], hb[k]):
                out.append(("lets", ha[k], hb[k]))
        elif not M.tree_equal(ha[k], hb[k]):
            out.append((k, ha[k], hb[k]))
    return out


def native_names(circ):
    return tuple(sorted(circ.native_gates))


EXP_FLOAT = re.compile(r"(?<![\w.])[-+]?\d+(\.\d+)?[eE][-+]?\d+")


def prog_features(prog):
    """Mechanism-level features of a (minimised) witness program."""
    f = set()
    macro_params = set()
    for n in sx.walk(prog):
        k = n[0]
        if k == "let":
            if isinstance(n[2], float):
                r = repr(n[2])
                if "e" in r and "." not in r.split("e")[0]:
                    f.add("float-exp-nodot")
                elif "e" in r:
                    f.add("float-exp")
            if isinstance(n[2], int) and abs(n[2]) >= 2**63:
                f.add("bigint")
        if k == "macro":
            params = set(n[2:-1])
            for g in sx.walk(n[-1]):
                if g[0] == "gate":
                    for a in g[2:]:
                        if isinstance(a, tuple):
                            if a[2] in params:
                                f.add("param-as-index")
                            if a[1] in params:
                                f.add("param-as-array")
                        elif isinstance(a, str) and a in params:
                            f.add("param-as-arg")
                if g[0] == "loop" and g[1] in params:
                    f.add("param-as-count")
                if g[0] == "subcircuit_block":
                    f.add("sub-in-macro")
                    if g[1] in params:
                        f.add("param-as-subcount")
        if k == "gate":
            for a in n[2:]:
                if isinstance(a, float):
                    r = repr(a)
                    if "e" in r and "." not in r.split("e")[0]:
                        f.add("float-exp-nodot")
                    elif "e" in r:
                        f.add("float-exp")
                if isinstance(a, tuple) and isinstance(a[2], str):
                    f.add("let-or-param-index")
        if k == "register" and isinstance(n[2], str):
            f.add("let-sized-register")
        if k == "map":
            f.add("map%d" % len(n))
            if any(isinstance(v, str) for v in n[3:]):
                f.add("let-bound-map")
            if len(n) == 6:
                lets = {x[1]: x[2] for x in prog[1:] if x[0] == "let"}
                st = lets.get(n[5], n[5]) if isinstance(n[5], str) else n[5]
                if isinstance(st, int) and st < 0:
                    f.add("negative-step")
        if k == "subcircuit_block":
            f.add("sub")
            if isinstance(n[1], str) and n[1] != "":
                f.add("sub-let-count")
        if k == "usepulses":
            f.add("usepulses")
        if k == "loop" and isinstance(n[1], str):
            f.add("let-or-param-count")
    return f


def sig(prop, clause, feats=()):
    feats = sorted(feats)
    return "%s:%s%s" % (prop, clause, (":" + "+".join(feats)) if feats else "")


def case_prog(case):
    return sx.unnorm(case["prog"]) if isinstance(case["prog"], list) else case["prog"]


_TOK = re.compile(r"At token `(.*)`", re.S)
_ILL = re.compile(r"Illegal character '(.)'")


def err_class(msg):
    """Coarse class of a parser error message: which token / character it stopped at."""
    m = _TOK.search(msg)
    if m:
        t = m.group(1)
        if t in "{}<>|;[]:*":
            return "tok" + t
        if t.startswith("\n"):
            return "tokNL"
        if re.fullmatch(r"[-+]?\d+", t):
            return "tokINT"
        if re.fullmatch(r"[A-Za-z_][\w.]*", t):
            return "tokID"
        return "tok?"
    m = _ILL.search(msg)
    if m:
        return "illegal-char"
    if "EOF" in msg:
        return "eof"
    return "other"


def add_outer_names_in_macro(rng, prog, gate="vfg", executable=False):
    """Append to a program: a constant, a single-qubit alias indexed by it and a sliced alias bounded by it (both declared
    OUTSIDE any macro), and a macro one of whose parameters carries the constant's name and whose body uses those aliases
    beside the parameter itself; the macro is called with another value.  Inside the body the name is the parameter --
    but the aliases mean what their declarations say.  Returns (program, 1) or (program, 0) when the program has no
    register of a literal size."""
    regs = [s for s in prog[1:] if s[0] == "register"]
    if len(regs) != 1 or not isinstance(regs[0][2], int) or regs[0][2] < 2:
        return prog, 0
    used = {s[1] for s in prog[1:] if s[0] in ("let", "register", "map", "macro")}
    kname, aname, bname, mname = "vfk", "vfone", "vfsl", "vfpick"
    if {kname, aname, bname, mname, "vfafter"} & used:
        return prog, 0
    q, n = regs[0][1], regs[0][2]
    v = rng.randrange(n - 1)
    v2 = rng.choice([x for x in range(n) if x != v])
    hdr = [("let", kname, v), ("map", aname, q, kname), ("map", bname, q, kname, None, None)]
    uses = [("gate", gate, aname), ("gate", gate, ("array_item", bname, 0)), ("gate", gate, ("array_item", q, kname))]
    rng.shuffle(uses)
    body = ("sequential_block",) + tuple(uses[:rng.randint(1, 3)])
    mac = ("macro", mname, kname, body)
    # ... and a macro declared AFTER it that has no parameter of that name: there the name is the constant again
    later = ("macro", "vfafter", ("sequential_block", ("gate", gate, ("array_item", q, kname)), ("gate", gate, aname)))
    items = list(prog[1:])
    k = max([j for j, s in enumerate(items) if s[0] in sx.HEADER], default=-1)
    items = items[:k + 1] + hdr + items[k + 1:]
    k = max([j for j, s in enumerate(items) if s[0] in sx.HEADER or s[0] == "macro"], default=-1)
    items = items[:k + 1] + [mac, later] + items[k + 1:]
    call = ("gate", mname, v2)
    call2 = ("gate", "vfafter")
    items += [("gate", "prepare_all"), call, call2, ("gate", "measure_all")] if executable else [call, call2]
    return ("circuit",) + tuple(items), 1
