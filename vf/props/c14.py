"""C14 -- no program is accepted with a reference that cannot be honoured."""
import os
import random

import numpy as np

from .. import sx, lib, monitors, harness
from .common import sig, case_prog
from . import execcommon as X

RULE = ("programs over the native gate set with exactly one seeded reference fault, each paired with a positive twin (the same "
        "program with the fault repaired, which must run): qubit index -1/-size/size/size+1 on registers and aliases given "
        "literally, by a let, by an override, by macro substitution; alias slices with start<0, stop>size, last element outside "
        "the source; alias/index applied to a let, a single-qubit alias, a macro name; undefined and doubly defined identifiers; "
        "unknown gate under a native set; wrong argument count and kind, directly and through macro parameters; non-integral "
        "floats as index/size/count/bound via let, override and macro argument; gate-set precedence injected > later import > "
        "earlier import via scratch pulse modules. Pipeline observed stage by stage: parse -> fill_in_let(ov) -> expand_macros -> "
        "run_jaqal_circuit. non-trivial = every case (each has a fault or is a twin); distinct = program + overrides")
ASSUMPTIONS = ["latest admissible rejection stage per fault: parse for literal faults, fill_in_let for let-valued/overridden ones, "
               "expand_macros for faults arising by macro substitution, run otherwise",
               "zero/negative strides and negative loop counts are not in the statement and not generated"]
TIERS = {"quick": {"shards": 8, "budget_s": 320}, "thorough": {"shards": 16, "budget_s": 360}}
REQUIRE = {"faulty-references-given-to-the-used-qubit-analysis-of-the-parsed-circuit": 100, "route:macros-first": 500, "route:parser-macro-let": 500, "route:builder": 500, "route:parser-let-map": 500, "route:parser-let": 500, "internal-context-names-observed": 1, "faulty-cases": 2000, "twin-cases": 2000, "twin-accepted": 2000, "precedence-probes": 1}

STAGES = ["parse", "fill_in_let", "expand_macros", "run"]


def pipeline(prog, ov, native=True, route="passes", bseed=0):
    """Run the stages separately; returns (stage reached or rejecting stage, outcome tuple, result).
    route: 'passes' = parse, fill_in_let(ov), expand_macros, run;  'parser-let' / 'parser-let-map' = the parser is asked
    to substitute lets (and aliases) itself: parse_jaqal_string(expand_let=True | expand_let_map=True, override_dict=ov)."""
    text = sx.to_text(prog)
    if route == "builder":
        # assembled through the object-oriented CircuitBuilder with the gate set in force, objects built at once or
        # unevaluated at random: a fault must be refused when the circuit is built, at the latest
        from . import builder_route

        o = lib.outcome(lambda: builder_route.via_builder(prog, bseed, native=X.native() if native else None)[0])
        if o[0] != "ok":
            return "parse", o, None
        c = o[1]
        o = lib.outcome(lib.fill_in_let, c, ov or None)
        if o[0] != "ok":
            return "fill_in_let", o, None
    elif route == "passes":
        o = lib.outcome(lib.parse, text, X.native() if native else None)
        if o[0] != "ok":
            return "parse", o, None
        c = o[1]
        o = lib.outcome(lib.fill_in_let, c, ov or None)
        if o[0] != "ok":
            return "fill_in_let", o, None
    elif route == "macros-first":
        # the other order of the two passes: macros expanded while the lets are symbolic, then lets (and overrides) filled in
        o = lib.outcome(lib.parse, text, X.native() if native else None)
        if o[0] != "ok":
            return "parse", o, None
        o = lib.outcome(lib.expand_macros, o[1])
        if o[0] != "ok":
            return "expand_macros", o, None
        o = lib.outcome(lib.fill_in_let, o[1], ov or None)
        if o[0] != "ok":
            return "fill_in_let", o, None
    elif route == "parser-macro-let":
        # the parser does both (macros first, which is its own order)
        o = lib.outcome(lib.parse, text, X.native() if native else None, override_dict=ov or None, expand_macro=True, expand_let=True)
        if o[0] != "ok":
            return "parse", o, None
    else:
        kw = {"expand_let": True} if route == "parser-let" else {"expand_let_map": True}
        o = lib.outcome(lib.parse, text, X.native() if native else None, override_dict=ov or None, **kw)
        if o[0] != "ok":
            return "parse", o, None  # one call: parsing and substitution cannot be told apart
    o = lib.outcome(lib.expand_macros, o[1])
    if o[0] != "ok":
        return "expand_macros", o, None
    np.random.seed(3)
    o = lib.budgeted(lib.run, 300000, o[1])
    if o[0] == "budget":
        return "run", ("budget",), None
    if o[0] != "ok":
        return "run", o[:3], None
    return "done", ("ok",), o[1]


def judge(case):
    prog = case_prog(case)
    ov = dict(case.get("ov") or {})
    faulty = case["fault"] is not None
    stage, o, res = pipeline(prog, ov, route=case.get("route", "passes"), bseed=case.get("bseed", 0))
    fails = []
    info = {"stage": stage, "outcome": o[0]}
    if o[0] == "budget":
        return "skipped:step-budget", fails, info
    if not faulty:
        if stage != "done" and case.get("route") == "parser-let-map" and o[0] == "jaqal":
            # fill_in_map documents that it cannot rewrite references that depend on a macro parameter; if the
            # same legal program passes without the alias rewriting this is that limitation, not a rejection by C14's rules
            st2, o2, _ = pipeline(prog, ov, route="parser-let")
            if st2 == "done":
                return "skipped:fill_in_map-precondition", fails, info
        if stage != "done":
            fails.append(("twin-rejected:%s:%s" % (case.get("twin_of"), stage), {"error": str(o[1:3])[:300]}))
        return "ok", fails, info
    fc = case["fault"]
    if not ov and fc.split(":")[0] in ("index-let", "alias-index-let", "alias-single-let") and case.get("route", "passes") == "passes":
        # the same reference met by a reader that evaluates the constants itself (no fill_in_let first): the used-qubit analysis
        # of the circuit as parsed may refuse it, it may not name some qubit for it
        oc = lib.outcome(lib.parse, sx.to_text(prog), X.native())
        if oc[0] == "ok":
            ou = lib.outcome(lib.used_qubits, oc[1])
            info["raw"] = 1
            if ou[0] == "ok":
                fails.append(("accepted-by-the-used-qubit-analysis-of-the-circuit-as-parsed:" + fc, {"got": str(dict(ou[1]))[:120]}))
            elif ou[0] == "exc":
                fails.append(("wrong-exception:%s:%s:used-qubit-analysis" % (fc, ou[1]), {"error": ou[2]}))
    if stage == "done":
        probs = [np.asarray(sc.simulated_probability_by_int).round(6).tolist() for sc in res.subcircuits][:2]
        fails.append(("accepted-and-ran:" + fc, {"probabilities": probs, "ov": ov}))
    elif o[0] == "exc":
        fails.append(("wrong-exception:%s:%s:%s" % (fc, o[1], stage), {"error": o[2], "ov": ov}))
    else:
        latest = case.get("latest", "run")
        if case.get("route") in ("macros-first", "parser-macro-let"):
            latest = "run"  # the stages come in another order: only refusal as such is judged
        if STAGES.index(stage) > STAGES.index(latest):
            fails.append(("rejected-too-late:%s:known-at-%s:rejected-at-%s" % (fc, latest, stage), {"error": o[2], "ov": ov}))
        if not str(o[2]).strip():
            fails.append(("empty-error-message:" + fc, {}))
    return "ok", fails, info


# ---------------------------------------------------------------------------------------
# fault builders.  Each returns a list of cases: (fault class, latest stage, prog, ov) and a twin
# ---------------------------------------------------------------------------------------

def base(rng, n=None, let_size=False):
    n = n or rng.randint(2, 4)
    hdr = [("let", "th", 0.5)]
    if let_size:
        hdr += [("let", "N", n), ("register", "q", "N")]
    else:
        hdr += [("register", "q", n)]
    return n, hdr


def wrap(hdr, stmts, macros=()):
    return ("circuit",) + tuple(hdr) + tuple(macros) + (("gate", "prepare_all"),) + tuple(stmts) + (("gate", "measure_all"),)


# Names that the library itself keeps in its name context while building (observed at run time by a
# hook on Builder.build while a probe program with every kind of block is parsed).  A program must
# not be able to use such a name as if it were a declared identifier.
HARVEST = set()
PROBE_NAMES = {"pa", "pq", "pr", "pm", "px", "pn"}
PROBE = ("let pn 2\nregister pq[2]\nmap pa pq[0:2]\nmap pr pq[1]\nmacro pm px { < X px > ; loop 2 { X px } }\n"
         "{ X pq[0] }\n< X pq[0] | { X pq[1] } >\nloop pn { < X pa[0] > }\nsubcircuit { pm pr }\npm pq[0]\n")
_IDENT = __import__("re").compile(r"^[A-Za-z_][A-Za-z0-9_]*$")


def harvest_internal_names():
    from jaqalpaq.core import circuitbuilder as cb

    orig = cb.Builder.build

    def build(self, expression, context=None, gate_context=None):
        if context is not None:
            HARVEST.update(k for k in context if isinstance(k, str))
        return orig(self, expression, context, gate_context)

    cb.Builder.build = build
    try:
        ok = lib.outcome(lib.parse, PROBE)[0] == "ok" and lib.outcome(lib.parse, PROBE, X.native())[0] == "ok"
    finally:
        cb.Builder.build = orig
    if not ok:
        return [], []
    internal = sorted(k for k in HARVEST if k not in PROBE_NAMES)
    return internal, [k for k in internal if _IDENT.match(k)]


INTERNAL_IDENTIFIERS = []


def gen_cases(rng):
    """Yield dicts: {'fault', 'latest', 'prog', 'ov', 'twin': (prog, ov)}."""
    out = []

    def add(fault, latest, prog, twin, ov=None, twin_ov=None):
        out.append({"fault": fault, "latest": latest, "prog": prog, "ov": ov or {}, "twin": (twin, twin_ov if twin_ov is not None else (ov or {}))})

    # ---- F1: index out of range ----------------------------------------------------------
    for let_size in (False, True):
        n, hdr = base(rng, let_size=let_size)
        good = n - 1
        for bad in (-1, -n, n, n + 1, 10 ** 12):
            lat = "fill_in_let" if let_size else "parse"
            add("index-literal:%s" % cls(bad, n), lat, wrap(hdr, [("gate", "X", ("array_item", "q", bad))]),
                wrap(hdr, [("gate", "X", ("array_item", "q", good))]))
            # via let
            h2 = hdr + [("let", "i", bad)]
            h2 = [x for x in h2 if x[0] == "let"] + [x for x in h2 if x[0] != "let"]
            h3 = [("let", "i", good) if x == ("let", "i", bad) else x for x in h2]
            add("index-let:%s" % cls(bad, n), "fill_in_let", wrap(h2, [("gate", "X", ("array_item", "q", "i"))]),
                wrap(h3, [("gate", "X", ("array_item", "q", "i"))]))
            # via override
            add("index-override:%s" % cls(bad, n), "fill_in_let", wrap(h3, [("gate", "X", ("array_item", "q", "i"))]),
                wrap(h3, [("gate", "X", ("array_item", "q", "i"))]), ov={"i": bad}, twin_ov={"i": 0})
            # via macro substitution
            m = ("macro", "mi", "k", ("sequential_block", ("gate", "X", ("array_item", "q", "k"))))
            add("index-macro:%s" % cls(bad, n), "expand_macros", wrap(hdr, [("gate", "mi", bad)], [m]),
                wrap(hdr, [("gate", "mi", good)], [m]))
            # a let handed to the macro as its argument, the faulty value arriving through the override dictionary (directly and
            # through a second macro)
            hl = [("let", "i", good)] + hdr
            hl = [x for x in hl if x[0] == "let"] + [x for x in hl if x[0] != "let"]
            mo = ("macro", "mo", "j", ("sequential_block", ("gate", "mi", "j")))
            add("index-macro-argument-let-override:%s" % cls(bad, n), "expand_macros", wrap(hl, [("gate", "mi", "i")], [m]),
                wrap(hl, [("gate", "mi", "i")], [m]), ov={"i": bad}, twin_ov={"i": 0})
            add("index-macro-argument-let-override:nested:%s" % cls(bad, n), "expand_macros", wrap(hl, [("gate", "mo", "i")], [m, mo]),
                wrap(hl, [("gate", "mo", "i")], [m, mo]), ov={"i": bad}, twin_ov={"i": 0})
            # ... where the parameter shadows a let used by an identical statement elsewhere
            hk = [("let", "k", 0)] + hdr
            pre = ("macro", "uk", ("sequential_block", ("gate", "X", ("array_item", "q", "k"))))
            add("index-macro-param-shadows-let:%s" % cls(bad, n), "expand_macros", wrap(hk, [("gate", "uk"), ("gate", "mi", bad)], [pre, m]),
                wrap(hk, [("gate", "uk"), ("gate", "mi", good)], [pre, m]))
        # register size shrunk by override below a used index
        if let_size and n >= 2:
            add("index-vs-overridden-size", "fill_in_let", wrap(hdr, [("gate", "X", ("array_item", "q", n - 1))]),
                wrap(hdr, [("gate", "X", ("array_item", "q", n - 1))]), ov={"N": n - 1}, twin_ov={"N": n + 1})
    # alias chains whose source size depends on a let that an override shrinks below a used index
    n = rng.randint(3, 5)
    k = n - 1
    small = rng.randint(1, k - 1)
    for kind, maps, ref_good in (
            ("whole-of-slice", [("map", "a", "q", 0, "k", 1), ("map", "b", "a")], ("array_item", "b", k - 1)),
            ("whole-of-whole-of-slice", [("map", "a", "q", 0, "k", 1), ("map", "b", "a"), ("map", "c", "b")], ("array_item", "c", k - 1)),
            ("slice-of-slice", [("map", "a", "q", 0, "k", 1), ("map", "b", "a", 0, "k", 1)], ("array_item", "b", k - 1)),
            ("single-of-whole-of-slice", [("map", "a", "q", 0, "k", 1), ("map", "b", "a"), ("map", "one", "b", k - 1)], "one"),
    ):
        h = [("let", "k", k), ("let", "th", 0.5), ("register", "q", n)] + maps
        st = [("gate", "X", ref_good)]
        add("index-vs-overridden-alias-size:" + kind, "fill_in_let", wrap(h, st), wrap(h, st), ov={"k": small}, twin_ov={"k": k})
    h = [("let", "N", n), ("let", "th", 0.5), ("register", "q", "N"), ("map", "b", "q")]
    st = [("gate", "X", ("array_item", "b", n - 1))]
    add("index-vs-overridden-register-size:whole-alias", "fill_in_let", wrap(h, st), wrap(h, st), ov={"N": n - 1}, twin_ov={"N": n})
    h = [("let", "N", n), ("let", "th", 0.5), ("register", "q", "N"), ("map", "b", "q", 0, n, 1)]
    add("slice-vs-overridden-register-size", "fill_in_let", wrap(h, [("gate", "X", ("array_item", "b", 0))]),
        wrap(h, [("gate", "X", ("array_item", "b", 0))]), ov={"N": n - 1}, twin_ov={"N": n + 1})
    # index into aliases
    n, hdr = base(rng, n=rng.randint(3, 5))
    for direction in ("up", "down"):
        if direction == "up":
            start = rng.randint(0, n - 2)
            stop = rng.randint(start + 1, n)
            step = rng.choice([1, 1, 2])
        else:
            # an alias counting down has as many elements as range(start, stop, step), no more
            start = rng.randint(1, n - 1)
            stop = rng.randint(-1, start - 1)
            step = rng.choice([-1, -1, -2])
        elems = list(range(start, stop, step))
        ah = hdr + [("map", "al", "q", start, stop, step)]
        L = len(elems)
        tag = "" if direction == "up" else "counting-down:"
        for bad in (-1, L, L + 1):
            add("alias-index-literal:%s%s" % (tag, cls(bad, L)), "parse", wrap(ah, [("gate", "X", ("array_item", "al", bad))]),
                wrap(ah, [("gate", "X", ("array_item", "al", L - 1))]))
            add("alias-single-literal:%s%s" % (tag, cls(bad, L)), "parse", wrap(ah + [("map", "one", "al", bad)], [("gate", "X", "one")]),
                wrap(ah + [("map", "one", "al", L - 1)], [("gate", "X", "one")]))
            lh = [("let", "i", bad)] + ah
            lg = [("let", "i", L - 1)] + ah
            add("alias-single-let:%s%s" % (tag, cls(bad, L)), "fill_in_let", wrap(lh + [("map", "one", "al", "i")], [("gate", "X", "one")]),
                wrap(lg + [("map", "one", "al", "i")], [("gate", "X", "one")]))
            add("alias-index-let:%s%s" % (tag, cls(bad, L)), "fill_in_let", wrap(lh, [("gate", "X", ("array_item", "al", "i"))]),
                wrap(lg, [("gate", "X", ("array_item", "al", "i"))]))
            add("alias-index-override:%s%s" % (tag, cls(bad, L)), "fill_in_let", wrap(lg, [("gate", "X", ("array_item", "al", "i"))]),
                wrap(lg, [("gate", "X", ("array_item", "al", "i"))]), ov={"i": bad}, twin_ov={"i": 0})
            m = ("macro", "mr", "r", "k", ("sequential_block", ("gate", "X", ("array_item", "r", "k"))))
            add("alias-index-macro:%s%s" % (tag, cls(bad, L)), "expand_macros", wrap(ah, [("gate", "mr", "al", bad)], [m]),
                wrap(ah, [("gate", "mr", "al", L - 1)], [m]))
            # a second alias taken from the first must fit into it
            if bad > 0:
                add("slice-of-alias-stop-beyond:%s%s" % (tag, cls(bad, L)), "parse",
                    wrap(ah + [("map", "b2", "al", 0, bad + 1, 1)], [("gate", "X", ("array_item", "b2", 0))]),
                    wrap(ah + [("map", "b2", "al", 0, L, 1)], [("gate", "X", ("array_item", "b2", 0))]))
    # an alias without elements (its stop is where it starts, or an explicit 0): it has no element 0 either
    for shape, (st_, sp_) in (("stop-0", (rng.randint(1, n - 1), 0)), ("0-to-0", (0, 0)), ("default-start-to-0", (None, 0)),
                              ("start-equals-stop", (1, 1))):
        empty = ("map", "al", "q", st_, sp_, None)
        full = ("map", "al", "q", st_, n, None)
        use0 = [("gate", "X", ("array_item", "al", 0))]
        add("empty-alias:%s:literal" % shape, "parse", wrap(hdr + [empty], use0), wrap(hdr + [full], use0))
        le, lf = [("let", "sp", sp_)] + hdr, [("let", "sp", n)] + hdr
        ml = ("map", "al", "q", st_, "sp", None)
        add("empty-alias:%s:let" % shape, "fill_in_let", wrap(le + [ml], use0), wrap(lf + [ml], use0))
        add("empty-alias:%s:override" % shape, "fill_in_let", wrap(lf + [ml], use0), wrap(lf + [ml], use0), ov={"sp": sp_}, twin_ov={"sp": n})
    # ---- F2: slices reaching outside -----------------------------------------------------
    n, hdr = base(rng, n=rng.randint(2, 5))
    good_map = ("map", "al", "q", 0, n, 1)
    use = [("gate", "X", ("array_item", "al", 0))]
    for fault, m in (("slice-start-negative", ("map", "al", "q", -1, n, 1)),
                     ("slice-stop-beyond", ("map", "al", "q", 0, n + 1, 1)),
                     ("slice-stop-far-beyond", ("map", "al", "q", 0, n + 7, 2)),
                     ("slice-start-beyond", ("map", "al", "q", n, n + 1, 1))):
        add(fault + ":literal", "parse", wrap(hdr + [m], use), wrap(hdr + [good_map], use))
        # by let
        lets = [("let", "s0", m[3]), ("let", "s1", m[4])]
        glets = [("let", "s0", 0), ("let", "s1", n)]
        ml = ("map", "al", "q", "s0", "s1", m[5])
        add(fault + ":let", "fill_in_let", wrap(lets + hdr + [ml], use), wrap(glets + hdr + [ml], use))
        add(fault + ":override", "fill_in_let", wrap(glets + hdr + [ml], use), wrap(glets + hdr + [ml], use),
            ov={"s0": m[3], "s1": m[4]}, twin_ov={"s0": 0, "s1": n})
    # slices counting down: first element beyond the source / last element below zero; the used element is in range
    # of the alias itself, so only the slice can be blamed
    gdown = ("map", "al", "q", n - 1, -1, -1)
    for fault, m, idx in (("slice-down-start-beyond", ("map", "al", "q", n + 1, 0, -1), 2),
                          ("slice-down-start-at-size", ("map", "al", "q", n, 0, -1), 1),
                          ("slice-down-below-zero", ("map", "al", "q", 1, -3, -1), 0),
                          ("slice-down-stride-below-zero", ("map", "al", "q", n - 1, -n - 2, -2), 0)):
        use_d = [("gate", "X", ("array_item", "al", idx))]
        use_g = [("gate", "X", ("array_item", "al", min(idx, n - 1)))]
        add(fault + ":literal", "parse", wrap(hdr + [m], use_d), wrap(hdr + [gdown], use_g))
        lets = [("let", "s0", m[3]), ("let", "s1", m[4]), ("let", "s2", m[5])]
        glets = [("let", "s0", n - 1), ("let", "s1", -1), ("let", "s2", -1)]
        ml = ("map", "al", "q", "s0", "s1", "s2")
        add(fault + ":let", "fill_in_let", wrap(lets + hdr + [ml], use_d), wrap(glets + hdr + [ml], use_g))
        add(fault + ":override", "fill_in_let", wrap(glets + hdr + [ml], use_d), wrap(glets + hdr + [ml], use_g),
            ov={"s0": m[3], "s1": m[4], "s2": m[5]}, twin_ov={"s0": n - 1, "s1": -1, "s2": -1})
    # a negative index that becomes known late (let, override), through an alias that does not start at zero
    if n >= 3:
        ah2 = hdr + [("map", "al", "q", 1, n, 1)]
        add("alias-index-let:negative-through-offset-alias", "fill_in_let", wrap([("let", "i", -1)] + ah2, [("gate", "X", ("array_item", "al", "i"))]),
            wrap([("let", "i", 0)] + ah2, [("gate", "X", ("array_item", "al", "i"))]))
    # alias of alias reaching outside its source
    if n >= 3:
        a1 = ("map", "a1", "q", 0, n - 1, 1)
        add("slice-of-alias-stop-beyond:literal", "parse", wrap(hdr + [a1, ("map", "al", "a1", 0, n, 1)], use),
            wrap(hdr + [a1, ("map", "al", "a1", 0, n - 1, 1)], use))
    # ---- F3: alias / index applied to a non-register ---------------------------------------
    n, hdr = base(rng)
    one = ("map", "one", "q", 0)
    mac = ("macro", "mm", "a", ("sequential_block", ("gate", "X", "a")))
    ok = wrap(hdr + [("map", "b", "q")], [("gate", "X", ("array_item", "b", 0))])
    for fault, h, st, macros in (
            ("map-whole-of-let", hdr + [("map", "b", "th")], [("gate", "X", ("array_item", "q", 0))], []),
            ("map-index-of-let", hdr + [("map", "b", "th", 0)], [("gate", "X", ("array_item", "q", 0))], []),
            ("map-slice-of-let", hdr + [("map", "b", "th", 0, 1, 1)], [("gate", "X", ("array_item", "q", 0))], []),
            ("map-whole-of-single-alias", hdr + [one, ("map", "b", "one")], [("gate", "X", ("array_item", "q", 0))], []),
            ("map-index-of-single-alias", hdr + [one, ("map", "b", "one", 0)], [("gate", "X", ("array_item", "q", 0))], []),
            ("index-of-let", hdr, [("gate", "X", ("array_item", "th", 0))], []),
            ("index-of-single-alias", hdr + [one], [("gate", "X", ("array_item", "one", 0))], []),
            ("index-of-macro-name", hdr, [("gate", "X", ("array_item", "mm", 0))], [mac]),
            ("map-of-macro-name", hdr + [("map", "b", "mm")], [("gate", "X", ("array_item", "q", 0))], [mac]),
    ):
        add("non-register:" + fault, "parse", wrap(h, st, macros), ok)
    # index applied to a non-register through a macro parameter
    mr = ("macro", "mr", "r", ("sequential_block", ("gate", "X", ("array_item", "r", 0))))
    for fault, arg in (("qubit", ("array_item", "q", 0)), ("number", 1), ("float", 0.5), ("let", "th")):
        add("non-register:index-of-macro-param-bound-to-" + fault, "expand_macros", wrap(hdr, [("gate", "mr", arg)], [mr]),
            wrap(hdr, [("gate", "mr", "q")], [mr]))
    # ---- F4: undefined identifiers -------------------------------------------------------------
    for fault, h, st in (
            ("gate-arg", hdr, [("gate", "Rx", ("array_item", "q", 0), "nope")]),
            ("array", hdr, [("gate", "X", ("array_item", "nope", 0))]),
            ("index", hdr, [("gate", "X", ("array_item", "q", "nope"))]),
            ("map-source", hdr + [("map", "b", "nope")], [("gate", "X", ("array_item", "q", 0))]),
            ("map-bound", hdr + [("map", "b", "q", 0, "nope", 1)], [("gate", "X", ("array_item", "q", 0))]),
            ("register-size", [("register", "q", "nope")], [("gate", "X", ("array_item", "q", 0))]),
            ("loop-count", hdr, [("loop", "nope", ("sequential_block", ("gate", "X", ("array_item", "q", 0))))]),
            ("let-used-before-definition", [("register", "q", "late"), ("let", "late", 2)], [("gate", "X", ("array_item", "q", 0))]),
    ):
        add("undefined:" + fault, "parse", wrap(h, st), ok)
    # ... the same with names a careless implementation might resolve: Python built-ins and the names the
    # builder was seen to keep in its own context, used in every kind of block
    q0_ = ("array_item", "q", 0)
    for name in ["True", "None", "self", "all", "__class__", "context"] + INTERNAL_IDENTIFIERS:
        kind = "internal-name" if name in INTERNAL_IDENTIFIERS else "python-name"
        uses = [("gate", "Rx", q0_, name), ("gate", "X", ("array_item", "q", name))]
        for u in uses:
            for where, st in (("top", [u]), ("seq", [("sequential_block", u)]), ("par", [("parallel_block", u)]),
                              ("loop", [("loop", 2, ("sequential_block", u))]),
                              ("nested", [("parallel_block", ("sequential_block", u, ("gate", "X", q0_)))])):
                add("undefined:%s:%s" % (kind, where), "parse", wrap(hdr, st), ok)
        add("undefined:%s:sub" % kind, "parse", ("circuit",) + tuple(hdr) + (("subcircuit_block", "", uses[0]),), ok)
        add("undefined:%s:macro-body" % kind, "parse",
            wrap(hdr, [("gate", "mu", q0_)], [("macro", "mu", "a", ("sequential_block", ("gate", "Rx", "a", name)))]), ok)
    # ---- F5: double definitions ---------------------------------------------------------------
    for fault, h, macros in (
            ("let-let", [("let", "th", 1.0)] + hdr, []),
            ("let-register", hdr + [("let", "q", 1)][:0] + [("let", "q", 1)], []),
            ("register-map", hdr + [("map", "q", "q")], []),
            ("map-map", hdr + [("map", "b", "q"), ("map", "b", "q", 0)], []),
            ("map-let", hdr + [("map", "th", "q")], []),
            ("macro-macro", hdr, [mac, mac]),
            ("macro-native-gate", hdr, [("macro", "X", "a", ("sequential_block", ("gate", "H", "a")))]),
            ("macro-parameter-twice", hdr, [("macro", "m2", "a", "a", ("sequential_block", ("gate", "X", "a")))]),
    ):
        # header statements must precede body statements: keep lets/maps in the header
        hh = [x for x in h if x[0] in sx.HEADER]
        add("duplicate:" + fault, "parse", wrap(hh, [("gate", "X", ("array_item", "q", 0))], macros), ok)
    # ---- F6/F7/F8: gate name, count, kind -------------------------------------------------------
    q0, q1 = ("array_item", "q", 0), ("array_item", "q", 1)
    good_stmt = [("gate", "Rx", q0, 0.5)]
    for fault, st in (
            ("unknown-gate", [("gate", "Nope", q0)]),
            ("too-few-args", [("gate", "Rx", q0)]),
            ("too-many-args", [("gate", "Rx", q0, 0.5, 0.5)]),
            ("no-args", [("gate", "CX")]),
            ("qubit-for-float", [("gate", "Rx", q0, q1)]),
            ("float-for-qubit", [("gate", "Rx", 0.5, 0.5)]),
            ("int-for-qubit", [("gate", "X", 1)]),
            ("register-for-qubit", [("gate", "X", "q")]),
            ("let-for-qubit", [("gate", "X", "th")]),
            ("register-for-float", [("gate", "Rx", q0, "q")]),
            ("float-for-int", [("gate", "PW", q0, 1.5)]),
            ("float-let-for-int", [("gate", "PW", q0, "th")]),
    ):
        add("call:" + fault, "parse", wrap(hdr, st), wrap(hdr, good_stmt))
    mq = ("macro", "mq", "a", "t", ("sequential_block", ("gate", "Rx", "a", "t")))
    for fault, args in (("macro-too-few", (q0,)), ("macro-too-many", (q0, 0.5, 0.5)),
                        ("macro-qubit-for-float", (q0, q1)), ("macro-float-for-qubit", (0.5, 0.5)),
                        ("macro-register-for-qubit", ("q", 0.5)), ("macro-let-for-qubit", ("th", 0.5))):
        lat = "parse" if "too" in fault else "expand_macros"
        add("call:" + fault, lat, wrap(hdr, [("gate", "mq") + args], [mq]), wrap(hdr, [("gate", "mq", q0, 0.5)], [mq]))
    mc = ("macro", "mc", "c", ("sequential_block", ("loop", "c", ("sequential_block", ("gate", "X", q0)))))
    for fault, arg in (("macro-qubit-for-count", q0), ("macro-float-for-count", 1.5), ("macro-register-for-count", "q")):
        add("call:" + fault, "expand_macros", wrap(hdr, [("gate", "mc", arg)], [mc]), wrap(hdr, [("gate", "mc", 2)], [mc]))
    # ---- F9: non-integral floats where an integer is needed -----------------------------------
    n, hdr = base(rng, n=3)
    fl = [("let", "f", 1.5)]
    il = [("let", "f", 1)]
    uses = {
        "index": (hdr, [("gate", "X", ("array_item", "q", "f"))]),
        "register-size": ([("let", "th", 0.5), ("register", "q", "f")], [("gate", "X", ("array_item", "q", 0))]),
        "loop-count": (hdr, [("loop", "f", ("sequential_block", ("gate", "X", q0)))]),
        "single-alias-index": (hdr + [("map", "one", "q", "f")], [("gate", "X", "one")]),
        "slice-start": (hdr + [("map", "al", "q", "f", 3, 1)], [("gate", "X", ("array_item", "al", 0))]),
        "slice-stop": (hdr + [("map", "al", "q", 0, "f", 1)], [("gate", "X", ("array_item", "al", 0))]),
        "slice-step": (hdr + [("map", "al", "q", 0, 3, "f")], [("gate", "X", ("array_item", "al", 0))]),
    }
    for fault, (h, st) in uses.items():
        add("non-integral:let-as-" + fault, "fill_in_let", wrap(fl + h, st), wrap(il + h, st))
        add("non-integral:override-as-" + fault, "fill_in_let", wrap(il + h, st), wrap(il + h, st), ov={"f": 1.5}, twin_ov={"f": 2})
    mi = ("macro", "mi", "k", ("sequential_block", ("gate", "X", ("array_item", "q", "k"))))
    add("non-integral:macro-argument-as-index", "expand_macros", wrap(hdr, [("gate", "mi", 0.5)], [mi]), wrap(hdr, [("gate", "mi", 2.0)], [mi]))
    add("non-integral:macro-let-argument-as-index", "expand_macros", wrap(fl + hdr, [("gate", "mi", "f")], [mi]),
        wrap(il + hdr, [("gate", "mi", "f")], [mi]))
    # subcircuit count
    add("non-integral:let-as-subcircuit-count", "fill_in_let",
        ("circuit",) + tuple(fl + hdr) + (("subcircuit_block", "f", ("gate", "X", q0)),),
        ("circuit",) + tuple(il + hdr) + (("subcircuit_block", "f", ("gate", "X", q0)),))
    return out


def cls(v, size):
    if v < 0:
        return "negative" if v == -1 else "very-negative"
    if v == size:
        return "eq-size"
    if v == size + 1:
        return "size-plus-1"
    if v > size + 1:
        return "huge"
    return "in-range"


# ---------------------------------------------------------------------------------------
PULSE_MOD = '''
from jaqalpaq.core import GateDefinition, Parameter, ParamType
from jaqalpaq.core.gatedef import BusyGateDefinition
Q = ParamType.QUBIT
class jaqal_gates:
    ALL_GATES = {
        "prepare_all": BusyGateDefinition("prepare_all"),
        "measure_all": BusyGateDefinition("measure_all"),
        "G": GateDefinition("G", [Parameter("q%%d" %% i, Q) for i in range(%d)]),
    }
'''


def precedence_probe(ctx):
    """Arity of gate G: module A says 1, module B says 2, injected set says 3."""
    from jaqalpaq.core import GateDefinition, Parameter, ParamType
    from jaqalpaq.core.gatedef import BusyGateDefinition

    rec = ctx.rec
    d = os.path.join(harness.ROOT, ".scratch", "pulses", "c14-%d-%d" % (os.getpid(), ctx.index))
    os.makedirs(d, exist_ok=True)
    try:
        for name, ar in (("vfpa", 1), ("vfpb", 2)):
            with open(os.path.join(d, name + ".py"), "w") as fd:
                fd.write(PULSE_MOD % ar)
        inj = {"prepare_all": BusyGateDefinition("prepare_all"), "measure_all": BusyGateDefinition("measure_all"),
               "G": GateDefinition("G", [Parameter("q%d" % i, ParamType.QUBIT) for i in range(3)])}
        qs = ["q[0]", "q[1]", "q[2]"]

        def accepted_arity(imports, inject):
            acc = []
            for k in (1, 2, 3):
                text = "".join("from .%s usepulses *\n" % m for m in imports) + "register q[3]\nprepare_all\nG %s\nmeasure_all\n" % " ".join(qs[:k])
                o = lib.outcome(lib.parse, text, inject, autoload_pulses=True, import_path=d)
                if o[0] == "exc":
                    return ("exc", o[1], o[2])
                if o[0] == "ok":
                    acc.append(k)
            return acc

        table = {
            "A": (accepted_arity(["vfpa"], None), [1]),
            "B": (accepted_arity(["vfpb"], None), [2]),
            "A then B (later wins)": (accepted_arity(["vfpa", "vfpb"], None), [2]),
            "B then A (later wins)": (accepted_arity(["vfpb", "vfpa"], None), [1]),
            "A then B + injected (injected wins)": (accepted_arity(["vfpa", "vfpb"], inj), [3]),
            "injected only": (accepted_arity([], inj), [3]),
        }
        # the imported file changes between two parses of one process (same relative import, same import_path): the gate
        # set in force is the one the file defines NOW -- an arity the file no longer offers is an undefined call
        with open(os.path.join(d, "vfpa.py"), "w") as fd:
            fd.write(PULSE_MOD % 2)
        os.utime(os.path.join(d, "vfpa.py"), (2_000_000_000, 2_000_000_000))
        table["A after the file was rewritten to arity 2"] = (accepted_arity(["vfpa"], None), [2])
        # ... and the default import path follows the working directory
        d2 = os.path.join(d, "elsewhere")
        os.makedirs(d2, exist_ok=True)
        with open(os.path.join(d2, "vfpa.py"), "w") as fd:
            fd.write(PULSE_MOD % 3)
        cwd = os.getcwd()

        def arity_in_cwd(where):
            os.chdir(where)
            try:
                acc = []
                for k in (1, 2, 3):
                    text = "from .vfpa usepulses *\nregister q[3]\nprepare_all\nG %s\nmeasure_all\n" % " ".join(qs[:k])
                    o = lib.outcome(lib.parse, text, None, autoload_pulses=True)
                    if o[0] == "exc":
                        return ("exc", o[1], o[2])
                    if o[0] == "ok":
                        acc.append(k)
                return acc
            finally:
                os.chdir(cwd)

        # gate definitions injected as a LIST (the documented alternative to a dictionary) override imports just the same
        table["A then B + injected as a list (injected wins)"] = (accepted_arity(["vfpa", "vfpb"], list(inj.values())), [3])
        # a module of the same name that the host program imported itself (absolute import, from elsewhere on sys.path)
        # is none of a relative pulse import's business: the file under import_path is the one that counts
        d3 = os.path.join(d, "hostpath")
        os.makedirs(d3, exist_ok=True)
        with open(os.path.join(d3, "vfpc.py"), "w") as fd:
            fd.write(PULSE_MOD % 1)
        with open(os.path.join(d, "vfpc.py"), "w") as fd:
            fd.write(PULSE_MOD % 2)
        import importlib
        import sys as _sys

        _sys.path.insert(0, d3)
        try:
            _sys.modules.pop("vfpc", None)
            importlib.import_module("vfpc")
            table["C relative, after the host imported another module called vfpc"] = (accepted_arity(["vfpc"], None), [2])
        finally:
            _sys.path.remove(d3)
            _sys.modules.pop("vfpc", None)
        table["A by default path, in the first directory"] = (arity_in_cwd(d), [2])
        table["A by default path, after chdir to a directory with another vfpa"] = (arity_in_cwd(d2), [3])
        rec.count("precedence-probes")
        rec.note("gate_set_precedence", {k: {"accepted_arities": v[0], "expected": v[1]} for k, v in table.items()})
        for k, (got, exp) in table.items():
            if isinstance(got, tuple):
                rec.violation(sig("C14", "precedence:wrong-exception:" + got[1]), {"config": k, "error": got[2]}, {"kind": "precedence"})
            elif got != exp:
                rec.violation(sig("C14", "precedence:wrong-arity-enforced"), {"config": k, "accepted": got, "expected": exp},
                              {"kind": "precedence"})
    finally:
        import shutil

        shutil.rmtree(d, ignore_errors=True)


def in_loops(prog, shape=0):
    """The body statements inside `loop 1 { }` -- directly in the circuit (shape 0), inside a block of the circuit (1),
    inside a block inside a parallel block (2), or in a loop in a loop (3)."""
    out = []
    for s in prog[1:]:
        if s[0] == "gate" and s[1] not in ("prepare_all", "measure_all"):
            lp = ("loop", 1, ("sequential_block", s))
            if shape == 1:
                lp = ("sequential_block", lp)
            elif shape == 2:
                lp = ("parallel_block", ("sequential_block", lp))
            elif shape == 3:
                lp = ("loop", 1, ("sequential_block", lp))
            out.append(lp)
        else:
            out.append(s)
    return ("circuit",) + tuple(out)


def process(ctx, case):
    rec = ctx.rec
    st, fails, info = judge(case)
    rec.case([case["prog"], sorted((case.get("ov") or {}).items()), case.get("route")], nontrivial=True)
    rec.count("route:" + case.get("route", "passes"))
    if st != "ok":
        rec.count(st)
        return
    rec.count("faulty-references-given-to-the-used-qubit-analysis-of-the-parsed-circuit", (info or {}).get("raw", 0))
    if case["fault"] is None:
        rec.count("twin-cases")
        if info["stage"] == "done":
            rec.count("twin-accepted")
    else:
        rec.count("faulty-cases")
        rec.count("fault-class:" + case["fault"].split(":")[0])
        if info["outcome"] == "jaqal":
            rec.count("rejected-at:" + info["stage"])
    for clause, detail in fails:
        r = case.get("route", "passes")
        rec.violation(sig("C14", clause, () if r == "passes" else ("via-" + r,)), detail, case)


def shard(ctx):
    rec = ctx.rec
    monitors.install_contracts()
    n = ctx.scale(110, 4000)
    internal, usable = harvest_internal_names()
    INTERNAL_IDENTIFIERS[:] = usable
    rec.note("names_the_builder_keeps_in_its_context", internal)
    rec.count("internal-context-names-observed", len(internal))
    rec.count("internal-context-names-that-are-legal-identifiers", len(usable))
    i = 0
    while i < n and not rec.expired():
        i += 1
        cases = gen_cases(ctx.rng)
        for c in cases:
            route = ctx.rng.choice(["passes", "passes", "parser-let", "parser-let-map", "builder", "macros-first", "parser-macro-let"])
            bs = ctx.rng.randrange(1 << 30)
            fp = c["prog"]
            tp, tov = c["twin"]
            if route == "builder" and ctx.rng.random() < 0.7:
                # the statements sit in `loop 1 { ... }`: the builder may then build them before the circuit exists
                shape = ctx.rng.randrange(4)
                fp, tp = in_loops(fp, shape), in_loops(tp, shape)
                rec.count("builder-route-statements-in-loops:shape-%d" % shape)
            process(ctx, {"fault": c["fault"], "latest": c["latest"], "prog": fp, "ov": c["ov"], "route": route, "bseed": bs})
            process(ctx, {"fault": None, "twin_of": c["fault"].split(":")[0], "prog": tp, "ov": tov, "route": route, "bseed": bs})
        if i == 1:
            for c in cases[:3]:
                rec.sample({"fault": c["fault"], "ov": c["ov"], "text": sx.to_text(c["prog"])})
            rec.note("fault_classes", sorted({c["fault"] for c in cases}))
    if ctx.index == 0:
        precedence_probe(ctx)
    monitors.report_contracts(rec)


def replay(ctx, case):
    if case.get("kind") == "precedence":
        precedence_probe(ctx)
        return
    st, fails, info = judge(case)
    for clause, detail in fails:
        ctx.rec.violation(sig("C14", clause), detail, case)
