"""C04 -- macro expansion preserves the meaning of the program."""
from .. import sx, gen, lib, meaning as M, monitors, minimise, apiroute
from . import builder_route
from .common import header_diff, native_names, prog_features, sig, case_prog

RULE = ("random programs with 0-4 macros (call DAG among earlier macros, parameters used as qubit / number / index / "
        "loop count / register and passed on, sequential and parallel bodies, calls from top level, seq, par, loop and "
        "subcircuit contexts, parameters shadowing header names); a quarter of the circuits are assembled through the "
        "object-oriented CircuitBuilder API (objects built at once or unevaluated, at random) instead of parsed, and a third of "
        "the calls follow a call with the other preserve_definitions value on the same object; oracle = reference call-by-substitution applied to the "
        "input IR object; non-trivial = the program contains at least one macro call; distinct = S-expression + flags")
ASSUMPTIONS = ["reference substitution semantics in vf/meaning.py (written from the Jaqal rules, shares no code with expand_macros.py)"]
TIERS = {"quick": {"shards": 8, "budget_s": 180}, "thorough": {"shards": 16, "budget_s": 300}}
REQUIRE = {"hand-made-statements-listing-names-in-another-order": 3000, "circuits-built-through-CircuitBuilder": 1000, "calls-after-earlier-call-on-same-object": 1000, "calls": 200, "nested-macro-programs": 20, "ctx:loop": 10, "ctx:par": 10, "ctx:sub": 5, "wrong-arity-probes": 20,
           "preserve:True": 50, "preserve:False": 50}


def gate_names(block):
    """Names of all gate statements reachable from an IR block (live objects)."""
    from jaqalpaq.core import BlockStatement, LoopStatement, GateStatement

    out = []
    stack = [block]
    while stack:
        s = stack.pop()
        if isinstance(s, GateStatement):
            out.append(s.name)
        elif isinstance(s, LoopStatement):
            stack.append(s.statements)
        elif isinstance(s, BlockStatement):
            stack.extend(s.statements)
    return out


STATS = {}


def judge(case):
    STATS.clear()
    prog = case_prog(case)
    preserve = bool(case.get("preserve"))
    if not sx.legal_nesting(prog):
        return "skipped:illegal-nesting", []
    o = lib.outcome(lib.parse, sx.to_text(prog))
    if o[0] != "ok":
        return "skipped:input-rejected:" + o[1], []
    c = o[1]
    if case.get("bseed") is not None:
        # the same program assembled through the object-oriented CircuitBuilder API, objects built
        # at once or unevaluated at random (see builder_route)
        ob = lib.outcome(builder_route.via_builder, prog, case["bseed"])
        if ob[0] != "ok":
            return "skipped:builder-route-rejected:" + ob[1], []
        c = ob[1][0]
    if case.get("raw") is not None:
        # the same circuit with every statement re-made by hand: GateStatement(definition, {name: value}) with the names
        # in another order than the declaration
        oa = lib.outcome(apiroute.rebuild_with_keyword_calls, c, case["raw"], True)
        if oa[0] != "ok":
            return "inconclusive:cannot-rebuild:%s" % (oa[2],), []
        c = oa[1][0]
        STATS["reordered"] = oa[1][1]["reordered"]
    try:
        kc = M.core_from_ir(c)
        expected = M.meaning(kc, expand_macros=True, expand_a1=True)
    except M.MeaningError as ex:
        return "skipped:no-reference-meaning:" + ex.kind, []
    except M.OracleError as ex:
        return "inconclusive:oracle:%s" % ex, []
    fails = []
    if case.get("prior"):
        # an earlier call on the SAME circuit object with the other option must leave nothing behind
        lib.outcome(lib.expand_macros, c, preserve_definitions=not preserve)
    o = lib.outcome(lib.expand_macros, c, preserve_definitions=preserve)
    if o[0] == "jaqal":
        return "ok", [("rejected-valid-program", {"error": o[2]})]
    if o[0] == "exc":
        return "ok", [("crash:" + o[1], {"error": o[2]})]
    r = o[1]
    try:
        left = [n for n in gate_names(r.body) if n in c.macros]
        if left:
            fails.append(("macro-call-left", {"names": sorted(set(left))}))
        kr = M.core_from_ir(r)
        got = M.meaning(kr, expand_macros=False, expand_a1=True)
        if not M.tree_equal(expected, got):
            d = M.first_diff(expected, got)
            kind = "meaning-differs"
            se, sg = repr(expected), repr(got)
            if se.count("'sub'") != sg.count("'sub'"):
                kind = "meaning-differs:subcircuit-annotation"
            fails.append((kind, {"diff": d}))
        else:
            # call-by-substitution hands the argument on as it was written: 2.0 stays the float 2.0 where it reaches a gate
            STATS["kind-compared"] = 1
            nd = M.number_kind_diff(expected, got)
            if nd:
                fails.append(("argument-number-kind-changed", {"diff": nd}))
        hd = header_diff(kc, kr, what=("lets", "regs", "usepulses"))
        if hd:
            fails.append(("header-changed:" + "+".join(h[0] for h in hd), {"diff": hd}))
        if native_names(c) != native_names(r):
            fails.append(("native-gates-changed", {"before": native_names(c), "after": native_names(r)}))
        if preserve:
            m1, m2 = M.macro_meanings(kc), M.macro_meanings(kr)
            if not M.tree_equal(tuple(m1.items()), tuple(m2.items())):
                fails.append(("macro-definitions-changed", {"diff": M.first_diff(tuple(m1.items()), tuple(m2.items()))}))
        elif len(r.macros):
            fails.append(("macro-definitions-kept", {"macros": list(r.macros)}))
    except M.OracleError as ex:
        return "inconclusive:oracle:%s" % ex, fails
    except M.MeaningError as ex:
        fails.append(("result-has-no-meaning:" + ex.kind, {"error": str(ex)}))
    return "ok", fails


def arity_probe(rec, c):
    """Calls with the wrong number of arguments, built directly from core objects (the
    parser rejects them earlier), must be rejected by expand_macros with JaqalError."""
    from jaqalpaq.core import Circuit, GateStatement

    out = []
    # the wrappers carry ordinary macro names (ones this circuit does not use, other programs of the run do): whatever a
    # refused expansion leaves behind under such a name meets a valid program soon
    free = [nm for nm in gen.MACRO_NAMES if nm not in c.macros and "." not in nm] + ["vfwrap1", "vfwrap2"]
    wn1, wn2 = free[0], free[1]
    for name, macro in c.macros.items():
        n = len(macro.parameters)
        for k in (n - 1, n + 1):
            if k < 0:
                continue
            params = {"x%d" % i: 1 for i in range(k)}
            # the call at the top of the body, inside a block, inside a loop, and inside the body of another macro (two deep)
            for where in ("top", "block", "loop", "macro-body", "macro-body-2", "own-macro-body"):
                from jaqalpaq.core import BlockStatement, LoopStatement, Macro

                c2 = Circuit(native_gates=c.native_gates)
                c2.macros.update(c.macros)
                c2.registers.update(c.registers)
                c2.constants.update(c.constants)
                bad = GateStatement(macro, dict(params))
                if where == "block":
                    bad = BlockStatement(statements=[bad])
                elif where == "loop":
                    bad = LoopStatement(2, BlockStatement(statements=[bad]))
                elif where == "own-macro-body":
                    # the faulty call stands at the end of the body of one of the program's own macros (a copy of it under
                    # the same name), and that macro is called
                    host = next(iter(c.macros.values()))
                    c2.macros[host.name] = Macro(host.name, list(host.parameters), BlockStatement(
                        parallel=host.body.parallel, statements=list(host.body.statements) + ([bad] if not host.body.parallel else [BlockStatement(statements=[bad])])))
                    bad = GateStatement(c2.macros[host.name], {p_.name: 0 for p_ in host.parameters})
                elif where.startswith("macro-body"):
                    w1 = Macro(wn1, [], BlockStatement(statements=[bad]))
                    c2.macros[wn1] = w1
                    bad = GateStatement(w1, {})
                    if where == "macro-body-2":
                        w2 = Macro(wn2, [], BlockStatement(statements=[LoopStatement(1, BlockStatement(statements=[bad]))]))
                        c2.macros[wn2] = w2
                        bad = GateStatement(w2, {})
                c2.body.statements.append(bad)
                rec.count("wrong-arity-probes")
                rec.count("wrong-arity-probes:" + where)
                o = lib.outcome(lib.expand_macros, c2)
                if o[0] != "jaqal":
                    out.append(("wrong-arity-not-rejected:" + where, {"macro": name, "params": n, "given": k, "outcome": o[0],
                                                                      "info": str(o[1:])[:200]}))
    return out


def _clauses(case):
    return {f[0] for f in judge(case)[1]}


def count_contexts(rec, prog, macros):
    def walk(s, ctx):
        k = s[0]
        if k == "gate":
            if s[1] in macros:
                rec.count("calls")
                rec.count("ctx:" + ctx)
            return
        if k == "sequential_block":
            for x in s[1:]:
                walk(x, "seq" if ctx in ("top", "seq") else ctx)
        elif k == "parallel_block":
            for x in s[1:]:
                walk(x, "par")
        elif k == "subcircuit_block":
            for x in s[2:]:
                walk(x, "sub")
        elif k == "loop":
            walk(s[2], "loop")
        elif k == "macro":
            walk(s[-1], "macro")

    for s in prog[1:]:
        if s[0] not in sx.HEADER:
            walk(s, "top")


def process(ctx, case, seen, probe=True):
    rec = ctx.rec
    prog = case_prog(case)
    macros = {s[1] for s in prog[1:] if s[0] == "macro"}
    ncalls = sum(1 for s in sx.walk(prog) if s[0] == "gate" and s[1] in macros)
    st, fails = judge(case)
    rec.case([prog, case.get("preserve"), case.get("bseed")], nontrivial=ncalls > 0)
    rec.count("preserve:%s" % bool(case.get("preserve")))
    if st != "ok":
        rec.count(":".join(st.split(":")[:2]))
        if st.startswith("inconclusive"):
            rec.inconc(st)
        return
    rec.count("judged")
    rec.count("hand-made-statements-listing-names-in-another-order", STATS.get("reordered", 0))
    count_contexts(rec, prog, macros)
    rec.count("number-kinds-of-gate-arguments-compared", STATS.get("kind-compared", 0))
    if any(s_[0] == "gate" and s_[1] in macros and any(isinstance(a_, float) and abs(a_) < 1e300 and a_ == int(a_) for a_ in s_[2:])
           for s_ in sx.walk(prog)):
        rec.count("programs-calling-a-macro-with-an-integral-float")
    nested = any(g[0] == "gate" and g[1] in macros for s in prog[1:] if s[0] == "macro" for g in sx.walk(s[-1]))
    if nested:
        rec.count("nested-macro-programs")
    for clause, detail in fails:
        key = (clause, tuple(sorted(prog_features(prog))))
        seen[key] = seen.get(key, 0) + 1
        if seen[key] > 2:
            rec.count("unminimised-repeat:" + clause)
            continue
        base = {"preserve": case.get("preserve")}
        if case.get("bseed") is not None and clause not in _clauses(dict(base, prog=prog)):
            base["bseed"] = case["bseed"]
        if case.get("prior") and clause not in _clauses(dict(base, prog=prog)):
            base["prior"] = True
        if case.get("raw") is not None and clause not in _clauses(dict(base, prog=prog)):
            base["raw"] = case["raw"]
        small = minimise.minimise(prog, lambda p: clause in _clauses(dict(base, prog=p)), budget=250)
        small_case = dict(base, prog=small)
        d2 = [f for f in judge(small_case)[1] if f[0] == clause]
        feats = prog_features(small)
        if base.get("prior"):
            feats.add("after-earlier-call-on-same-object")
        if base.get("bseed") is not None:
            feats.add("circuit-built-through-CircuitBuilder")
        if base.get("raw") is not None:
            feats.add("statements-made-with-the-GateStatement-constructor")
        rec.violation(sig("C04", clause, feats), d2[0][1] if d2 else detail, small_case)
    if probe and macros:
        o = lib.outcome(lib.parse, sx.to_text(prog))
        if o[0] == "ok":
            before = lib.outcome(lib.expand_macros, o[1])
            for clause, detail in arity_probe(rec, o[1]):
                rec.violation(sig("C04", clause), detail, case)
            # the refused expansions above leave nothing behind: the valid program expands as it did before them
            after = lib.outcome(lib.expand_macros, o[1])
            rec.count("valid-programs-expanded-again-after-refused-expansions")
            if before[0] == "ok" and after[0] != "ok":
                rec.violation(sig("C04", "valid-program-refused-after-refused-expansions"), {"error": str(after[1:3])[:300], "text": sx.to_text(prog)}, case)
            elif before[0] == "ok" and lib.generate(before[1]) != lib.generate(after[1]):
                rec.violation(sig("C04", "expansion-differs-after-refused-expansions"), {"text": sx.to_text(prog)}, case)


def shard(ctx):
    rec = ctx.rec
    monitors.install_contracts()
    n = ctx.scale(40000, 200000)
    seen = {}
    i = 0
    while i < n and not rec.expired():
        i += 1
        rng = ctx.rng
        g = gen.ProgGen(rng, n_macros=(1, 4), max_depth=rng.choice([2, 3, 4]), p_shadow=rng.choice([0.0, 0.4, 0.8]),
                        p_hostile_names=0.05, macro_sub=rng.random() < 0.4, p_usepulses=0.3,
                        body_len=(1, 6), wild_numbers=rng.random() < 0.3)
        prog = g.program()
        if i % 40 == 7:
            # a macro with a long body (tens of gate statements) that then calls another macro: depth is not length
            macs = [s_ for s_ in prog[1:] if s_[0] == "macro" and len(s_) == 3]
            regs = [s_ for s_ in prog[1:] if s_[0] == "register"]
            if macs and regs:
                k_ = max(j_ for j_, s_ in enumerate(prog) if isinstance(s_, tuple) and s_[0] == "macro")
                q0_ = ("array_item", regs[0][1], 0)
                n_ = rng.choice([49, 50, 51, 60, 120])
                big = ("macro", "vflong", ("sequential_block",) + tuple(("gate", "lg", q0_, float(j_)) for j_ in range(n_)) + (("gate", macs[0][1]),))
                prog = prog[:k_ + 1] + (big,) + prog[k_ + 1:] + (("gate", "vflong"),)
                rec.count("programs-with-a-long-macro-body")
        case = {"prog": prog, "preserve": rng.random() < 0.5}
        if rng.random() < 0.3:
            case["prior"] = True
            rec.count("calls-after-earlier-call-on-same-object")
        if rng.random() < 0.25:
            case["bseed"] = rng.randrange(1 << 30)
            rec.count("circuits-built-through-CircuitBuilder")
        elif rng.random() < 0.2:
            case["raw"] = rng.randrange(1 << 30)
        process(ctx, case, seen, probe=(i % 10 == 0))
        if i <= 3:
            rec.sample({"preserve": case["preserve"], "text": sx.to_text(prog)})
    monitors.report_contracts(rec)


def replay(ctx, case):
    st, fails = judge(case)
    prog = case_prog(case)
    for clause, detail in fails:
        ctx.rec.violation(sig("C04", clause, prog_features(prog)), detail, case)
