"""Bounded-exhaustive enumeration of *bracket sequences* (C12, shared with C08):

every sequence of N leaves drawn from {prepare_all, measure_all, ordinary gate}, with B
non-crossing containers placed around any (possibly empty) contiguous run of leaves, each
container one of {loop 0/1/2 with a sequential body, loop 0/1/2 with a single-branch parallel body,
sequential block, single-branch parallel block,
macro call whose body is the run, subcircuit block around a run of ordinary gates}.
Trees that Jaqal's block-nesting rules cannot express are skipped (a sequential block
directly inside a sequential context, a subcircuit inside a parallel block or another
subcircuit, directly or through a macro).
"""

LEAVES = ("P", "M", "G")
CONTAINERS = ("loop0", "loop1", "loop2", "ploop0", "ploop1", "ploop2", "seq", "par1", "macro", "sub")


def forests(n, b):
    """All item lists with exactly n leaves and exactly b containers."""
    if n == 0 and b == 0:
        yield ()
        return
    if n >= 1:
        for kind in LEAVES:
            for rest in forests(n - 1, b):
                yield (kind,) + rest
    if b >= 1:
        for k in range(0, n + 1):
            for bi in range(0, b):
                for inner in forests(k, bi):
                    for rest in forests(n - k, b - 1 - bi):
                        for ck in CONTAINERS:
                            yield ((ck, inner),) + rest


class Illegal(Exception):
    pass


def render(items, reg="q"):
    """Abstract forest -> legal program S-expression (or raise Illegal)."""
    macros = []

    def leaf(k):
        if k == "P":
            return ("gate", "prepare_all")
        if k == "M":
            return ("gate", "measure_all")
        return ("gate", "X", ("array_item", reg, 0))

    def has(items, what):
        for it in items:
            if isinstance(it, tuple):
                if it[0] == what or has(it[1], what):
                    return True
        return False

    def contains_sub(items):
        for it in items:
            if isinstance(it, tuple):
                if it[0] == "sub" or contains_sub(it[1]):
                    return True
        return False

    def seq_items(items, in_par, in_sub, top=False):
        out = []
        for it in items:
            if isinstance(it, str):
                out.append(leaf(it))
                continue
            ck, inner = it
            if ck == "seq":
                if not top:
                    raise Illegal("sequential block inside a sequential context")
                out.append(("sequential_block",) + tuple(seq_items(inner, in_par, in_sub)))
            elif ck == "par1":
                if contains_sub(inner):
                    raise Illegal("subcircuit inside parallel")
                if len(inner) == 1 and isinstance(inner[0], str):
                    out.append(("parallel_block", leaf(inner[0])))
                else:
                    out.append(("parallel_block", ("sequential_block",) + tuple(seq_items(inner, True, in_sub))))
            elif ck.startswith("loop"):
                out.append(("loop", int(ck[4:]), ("sequential_block",) + tuple(seq_items(inner, in_par, in_sub))))
            elif ck.startswith("ploop"):
                # a loop whose body is directly a (single-branch) parallel block
                if contains_sub(inner):
                    raise Illegal("subcircuit inside parallel")
                if len(inner) == 1 and isinstance(inner[0], str):
                    body = ("parallel_block", leaf(inner[0]))
                else:
                    body = ("parallel_block", ("sequential_block",) + tuple(seq_items(inner, True, in_sub)))
                out.append(("loop", int(ck[5:]), body))
            elif ck == "macro":
                if (in_par or in_sub) and contains_sub(inner):
                    raise Illegal("subcircuit (through a macro) inside parallel/subcircuit")
                name = "m%d" % len(macros)
                macros.append(None)
                idx = len(macros) - 1
                body = ("sequential_block",) + tuple(seq_items(inner, False, False))
                macros[idx] = ("macro", name, body)
                out.append(("gate", name))
            elif ck == "sub":
                if in_par or in_sub:
                    raise Illegal("subcircuit inside parallel/subcircuit")
                if not all(x == "G" for x in inner):
                    raise Illegal("subcircuit blocks only around runs of ordinary gates")
                out.append(("subcircuit_block", "") + tuple(leaf(x) for x in inner))
        return out

    body = seq_items(items, False, False, top=True)
    # a macro must be defined before the macro that calls it: inner macros got later indices
    # but were completed first; emit in completion order = reverse nesting -> sort by dependency
    ordered = []
    done = set()

    def emit(m):
        if m[1] in done:
            return
        for g in _gates(m[2]):
            for mm in macros:
                if mm[1] == g and mm[1] != m[1]:
                    emit(mm)
        done.add(m[1])
        ordered.append(m)

    for m in macros:
        emit(m)
    return ("circuit", ("register", reg, 1)) + tuple(ordered) + tuple(body)


def _gates(s):
    k = s[0]
    if k == "gate":
        yield s[1]
    elif k in ("sequential_block", "parallel_block"):
        for x in s[1:]:
            yield from _gates(x)
    elif k == "subcircuit_block":
        for x in s[2:]:
            yield from _gates(x)
    elif k == "loop":
        yield from _gates(s[2])


def enumerate_programs(max_leaves, max_containers, min_leaves=0):
    for n in range(min_leaves, max_leaves + 1):
        for b in range(0, max_containers + 1):
            for f in forests(n, b):
                try:
                    yield render(f)
                except Illegal:
                    continue


def count(max_leaves, max_containers):
    return sum(1 for _ in enumerate_programs(max_leaves, max_containers))


def render_free(items, reg="q"):
    """Abstract forest -> program S-expression WITHOUT Jaqal's text nesting rules (for circuits assembled from
    core objects): a subcircuit block may hold anything, blocks of one kind may nest.  None if the forest uses a
    macro container (the object assembler has none)."""
    def leaf(k):
        if k == "P":
            return ("gate", "prepare_all")
        if k == "M":
            return ("gate", "measure_all")
        return ("gate", "X", ("array_item", reg, 0))

    def seq_items(items):
        out = []
        for it in items:
            if isinstance(it, str):
                out.append(leaf(it))
                continue
            ck, inner = it
            if ck == "macro":
                raise Illegal("macro")
            if ck == "seq":
                out.append(("sequential_block",) + tuple(seq_items(inner)))
            elif ck == "par1":
                out.append(("parallel_block", ("sequential_block",) + tuple(seq_items(inner))))
            elif ck.startswith("loop"):
                out.append(("loop", int(ck[4:]), ("sequential_block",) + tuple(seq_items(inner))))
            elif ck.startswith("ploop"):
                out.append(("loop", int(ck[5:]), ("parallel_block", ("sequential_block",) + tuple(seq_items(inner)))))
            elif ck == "sub":
                out.append(("subcircuit_block", "") + tuple(seq_items(inner)))
        return out

    try:
        return ("circuit", ("register", reg, 1)) + tuple(seq_items(items))
    except Illegal:
        return None


def enumerate_object_programs(max_leaves, max_containers):
    """Forests that the text cannot express (render() refuses them) but core objects can."""
    for n in range(0, max_leaves + 1):
        for b in range(1, max_containers + 1):
            for f in forests(n, b):
                try:
                    render(f)
                    continue
                except Illegal:
                    pass
                p = render_free(f)
                if p is not None:
                    yield p
