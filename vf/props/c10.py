"""C10 -- passes commute, are idempotent, and keep circuits legal."""
import itertools

from .. import sx, gen, lib, meaning as M, monitors, minimise
from . import execcommon as X
from .common import prog_features, sig, case_prog, add_outer_names_in_macro

RULE = ("parser-produced circuits x override dictionaries x pass sequences over {S=expand_subcircuits, L=fill_in_let(ov), "
        "M=expand_macros, A=fill_in_map} of length <= 4 with repetition, A only after L (its documented precondition): "
        "full meaning of the result (everything expanded under ov) must equal that of the input; every pass applied twice must "
        "equal once (library ==, generated text, meaning); parse_jaqal_string(expand_macro / expand_let / expand_let_map, "
        "override_dict) must equal the pass composition on the plain parse; the text generated from every intermediate result "
        "must re-parse to the same meaning. quick: sampled sequences; thorough: all 200 sequences on a subset of programs. "
        "non-trivial = program has a macro call, a let use and an alias or subcircuit; distinct = (S-expression, ov, sequence)")
ASSUMPTIONS = ["a sequence in which a pass raises JaqalError is 'not applicable' and only counted",
               "reference full meaning from vf/meaning.py"]
TIERS = {"quick": {"shards": 8, "budget_s": 320}, "thorough": {"shards": 16, "budget_s": 480}}
REQUIRE = {"outer-aliases-used-in-a-macro-whose-parameter-shadows-their-constant": 40, "override-dictionary-object-kept-for-a-program-with-other-declared-values": 100, "alias-chain-programs": 150, "programs-loading-their-gates-from-a-pulse-module": 50, "programs-with-the-gate-set-in-force": 150, "parser-flags-with-another-option": 500, "macro-named-like-a-bounding-gate": 15, "sequences-judged": 3000, "idempotence-checked": 1000, "parser-flag-combinations": 500, "reparse-checked": 3000,
           "seq-len-4": 300}

PASSES = "SLMA"


def all_sequences(maxlen=4):
    out = []
    for n in range(1, maxlen + 1):
        for seq in itertools.product(PASSES, repeat=n):
            ok = True
            seen_l = False
            for p in seq:
                if p == "L":
                    seen_l = True
                if p == "A" and not seen_l:
                    ok = False
            if ok:
                out.append("".join(seq))
    return out


SEQS = all_sequences()


def apply_pass(p, c, ov):
    if p == "S":
        return lib.expand_subcircuits(c)
    if p == "L":
        return lib.fill_in_let(c, ov or None)
    if p == "M":
        return lib.expand_macros(c)
    if p == "A":
        return lib.fill_in_map(c)
    raise ValueError(p)


def full(c, ov):
    return M.full_meaning(M.core_from_ir(c), env=ov)


def full_keeping_subcircuits(c, ov):
    """Everything expanded but the subcircuit blocks: their repetition counts are part of the meaning until
    expand_subcircuits (which documents that it drops them) has been applied."""
    return M.meaning(M.core_from_ir(c), expand_macros=True, env=ov or {}, resolve=True, expand_sub=False)


def check_legal(c, ov, expect, tag, fails, counters, expect_ns=None):
    """generate -> parse -> same full meaning."""
    o = lib.outcome(lib.generate, c)
    if o[0] != "ok":
        fails.append((tag + ":generate-raised:" + o[1], {"error": o[2]}))
        return
    t = o[1]
    o2 = lib.outcome(lib.parse, t)
    counters["reparse"] = counters.get("reparse", 0) + 1
    if o2[0] != "ok":
        fails.append((tag + ":generated-text-rejected", {"error": o2[2], "text": t}))
        return
    try:
        got = full(o2[1], ov)
    except M.MeaningError as ex:
        fails.append((tag + ":reparsed-has-no-meaning:" + ex.kind, {"text": t}))
        return
    if not M.tree_equal(expect, got):
        fails.append((tag + ":reparsed-meaning-differs", {"diff": M.first_diff(expect, got), "text": t}))
    elif expect_ns is not None:
        try:
            got_ns = full_keeping_subcircuits(o2[1], ov)
        except (M.MeaningError, M.OracleError):
            return
        if not M.tree_equal(expect_ns, got_ns):
            fails.append((tag + ":reparsed-meaning-differs:subcircuit-count", {"diff": M.first_diff(expect_ns, got_ns), "text": t}))


def judge(case):
    prog = case_prog(case)
    ov = dict(case.get("ov") or {})
    seq = case["seq"]
    if not sx.legal_nesting(prog):
        return "skipped:illegal-nesting", [], {}
    text = sx.to_text(prog)
    # with a gate set in force, the parse and every rebuild a pass makes work with the same definition objects
    if case.get("native") == "usepulses":
        # the program names its gates itself and they are loaded from that module (as a user's program does)
        text = X.PULSE_LINE + text
        o = lib.outcome(lib.parse, text, autoload_pulses=True)
    else:
        o = lib.outcome(lib.parse, text, X.native() if case.get("native") else None)
    if o[0] != "ok":
        return "skipped:input-rejected:" + o[1], [], {}
    c = o[1]
    try:
        kc = M.core_from_ir(c)
        M.validate(kc, ov)
        expect = M.full_meaning(kc, env=ov)
        expect_ns = M.meaning(kc, expand_macros=True, env=ov or {}, resolve=True, expand_sub=False)
    except M.MeaningError as ex:
        return "skipped:no-reference-meaning:" + ex.kind, [], {}
    except M.OracleError as ex:
        return "inconclusive:oracle:%s" % ex, [], {}
    fails = []
    counters = {}
    x = c
    done = ""
    # the caller's own dictionary object, kept and re-used from program to program (what it holds is `ov`, unless a pass
    # wrote into it)
    ov_pass = case.get("_dict") if case.get("_dict") is not None else ov
    for p in seq:
        o = lib.outcome(apply_pass, p, x, ov_pass)
        if o[0] == "jaqal":
            return "not-applicable:%s" % p, fails, counters
        if o[0] == "exc":
            fails.append(("pass-crashed:%s:%s" % (p, o[1]), {"after": done, "error": o[2]}))
            return "ok", fails, counters
        y = o[1]
        done += p
        try:
            got = full(y, ov)
            if not M.tree_equal(expect, got):
                fails.append(("meaning-changed-by:%s" % p, {"after": done, "diff": M.first_diff(expect, got)}))
                return "ok", fails, counters
            if "S" not in done:
                got_ns = full_keeping_subcircuits(y, ov)
                counters["subcounts"] = counters.get("subcounts", 0) + 1
                if not M.tree_equal(expect_ns, got_ns):
                    fails.append(("subcircuit-count-changed-by:%s" % p, {"after": done, "diff": M.first_diff(expect_ns, got_ns)}))
                    return "ok", fails, counters
        except M.MeaningError as ex:
            fails.append(("result-has-no-meaning:%s:%s" % (p, ex.kind), {"after": done, "error": str(ex)}))
            return "ok", fails, counters
        except M.OracleError as ex:
            fails.append(("malformed-result:%s" % p, {"after": done, "error": str(ex)[:200]}))
            return "ok", fails, counters
        # idempotence of this pass on its own output
        o2 = lib.outcome(apply_pass, p, y, ov_pass)
        counters["idem"] = counters.get("idem", 0) + 1
        if o2[0] != "ok":
            fails.append(("second-application-fails:%s:%s" % (p, o2[1]), {"after": done, "error": o2[2]}))
        else:
            z = o2[1]
            try:
                same = (z == y) and (y == z)
            except Exception as ex:
                same = False
            ty, tz = lib.outcome(lib.generate, y), lib.outcome(lib.generate, z)
            if not same:
                fails.append(("not-idempotent:%s:eq" % p, {"after": done, "once": ty[1] if ty[0] == "ok" else None,
                                                            "twice": tz[1] if tz[0] == "ok" else None}))
            elif ty[0] == "ok" and tz[0] == "ok" and ty[1] != tz[1]:
                fails.append(("not-idempotent:%s:text" % p, {"after": done, "once": ty[1], "twice": tz[1]}))
        check_legal(y, ov, expect, "after-%s" % p, fails, counters, expect_ns if "S" not in done else None)
        if fails:
            return "ok", fails, counters
        x = y
    return "ok", fails, counters


def parse_as_file(text, kw):
    import os
    import tempfile

    d = tempfile.mkdtemp(prefix="vf-c10-")
    path = os.path.join(d, "prog.jaqal")
    try:
        with open(path, "w") as fd:
            fd.write(text)
        return lib.parse_file(path, **kw)
    finally:
        try:
            os.remove(path)
        finally:
            os.rmdir(d)


def judge_flags(case):
    """parse_jaqal_string(expand_*) == passes applied to the plain parse."""
    prog = case_prog(case)
    ov = dict(case.get("ov") or {})
    fl = case["flags"]
    text = sx.to_text(prog)
    native = X.native() if case.get("native") else None
    auto = {}
    if case.get("native") == "usepulses":
        text, native, auto = X.PULSE_LINE + text, None, {"autoload_pulses": True}
    o = lib.outcome(lib.parse, text, native, **auto)
    if o[0] != "ok":
        return "skipped:input-rejected", [], {}
    c = o[1]
    try:
        M.validate(M.core_from_ir(c), ov)
    except (M.MeaningError, M.OracleError):
        return "skipped:no-reference-meaning", [], {}

    def compose():
        x = c
        if fl.get("expand_macro"):
            x = lib.expand_macros(x, preserve_definitions=True)
        if fl.get("expand_let_map"):
            x = lib.fill_in_map(lib.fill_in_let(x, ov or None))
        elif fl.get("expand_let"):
            x = lib.fill_in_let(x, ov or None)
        return x

    a = lib.outcome(compose)
    if case.get("opt") == "return_usepulses":
        # the parser's other documented options do not change what the expansion flags do
        b = lib.outcome(lambda: lib.parse(text, native, override_dict=ov or None, return_usepulses=True, **dict(fl, **auto))[0])
    elif case.get("opt") == "file":
        b = lib.outcome(parse_as_file, text, dict(fl, override_dict=ov or None, native=native, **auto))
    else:
        b = lib.outcome(lib.parse, text, native, override_dict=ov or None, **dict(fl, **auto))
    fails = []
    if a[0] != b[0]:
        if "exc" in (a[0], b[0]):
            fails.append(("flags-vs-passes:crash", {"passes": str(a[:3])[:200], "parser": str(b[:3])[:200], "flags": fl}))
        else:
            fails.append(("flags-vs-passes:acceptance-differs", {"passes": str(a[:3])[:200], "parser": str(b[:3])[:200], "flags": fl}))
        return "ok", fails, {}
    if a[0] != "ok":
        return "not-applicable", fails, {}
    try:
        same = (a[1] == b[1]) and (b[1] == a[1])
    except Exception:
        same = False
    ta, tb = lib.outcome(lib.generate, a[1]), lib.outcome(lib.generate, b[1])
    if not same or (ta[0] == "ok" and tb[0] == "ok" and ta[1] != tb[1]):
        fails.append(("flags-vs-passes:circuits-differ", {"flags": fl, "passes": ta[1] if ta[0] == "ok" else None,
                                                           "parser": tb[1] if tb[0] == "ok" else None}))
    return "ok", fails, {"flags": 1}


def _clauses(case):
    j = judge_flags if "flags" in case else judge
    return {f[0] for f in j(case)[1]}


def rename_macro(prog, old, new):
    def rw(s):
        if not isinstance(s, tuple):
            return s
        if s[0] in ("macro", "gate") and s[1] == old:
            return (s[0], new) + tuple(rw(x) for x in s[2:])
        return tuple(rw(x) for x in s)

    return rw(prog)


def make_override(rng, prog):
    ov = {}
    for s in prog[1:]:
        if s[0] == "let" and rng.random() < 0.4:
            v = s[2]
            if isinstance(v, int) and 0 <= v <= 6:
                ov[s[1]] = rng.randint(0, 4)
            elif isinstance(v, float):
                ov[s[1]] = rng.choice([0.25, -1.5, 2.0, rng.uniform(-3, 3)])
    return ov


def process(ctx, case, seen):
    rec = ctx.rec
    prog = case_prog(case)
    flags_case = "flags" in case
    st, fails, counters = (judge_flags if flags_case else judge)(case)
    f = prog_features(prog)
    macros = {s[1] for s in prog[1:] if s[0] == "macro"}
    nontrivial = any(s[0] == "gate" and s[1] in macros for s in sx.walk(prog)) and bool(
        {"let-or-param-index", "let-or-param-count", "let-sized-register", "let-bound-map"} & f) and bool(
        {"map3", "map4", "map6", "sub"} & f)
    rec.case([prog, sorted((case.get("ov") or {}).items()), case.get("seq"), sorted((case.get("flags") or {}).items())], nontrivial=nontrivial)
    if st != "ok":
        rec.count(":".join(st.split(":")[:2]))
        if st.startswith("inconclusive"):
            rec.inconc(st)
        return
    if flags_case:
        rec.count("parser-flag-combinations")
    else:
        rec.count("sequences-judged")
        rec.count("seq-len-%d" % len(case["seq"]))
        rec.count("idempotence-checked", counters.get("idem", 0))
        rec.count("reparse-checked", counters.get("reparse", 0))
        rec.count("results-compared-with-subcircuit-counts-kept", counters.get("subcounts", 0))
    for clause, detail in fails:
        key = (clause, tuple(sorted(f)))
        seen[key] = seen.get(key, 0) + 1
        if seen[key] > 2:
            rec.count("unminimised-repeat:" + clause)
            continue
        base = {k: v for k, v in case.items() if k not in ("prog", "_dict")}
        small = minimise.minimise(prog, lambda p: clause in _clauses(dict(base, prog=p)), budget=200)
        small_case = dict(base, prog=small)
        d2 = [x for x in (judge_flags if flags_case else judge)(small_case)[1] if x[0] == clause]
        rec.violation(sig("C10", clause, prog_features(small)), d2[0][1] if d2 else detail, small_case)


KEPT, KEPT_CONTENT = {}, {}


def shard(ctx):
    rec = ctx.rec
    monitors.install_contracts()
    n = ctx.scale(800, 10000)
    seen = {}
    i = 0
    while i < n and not rec.expired():
        i += 1
        rng = ctx.rng
        g = gen.ProgGen(rng, n_macros=(0, 3), n_lets=(1, 4), n_maps=(0, 4), max_depth=rng.choice([2, 3, 4]), p_shadow=0.3,
                        p_hostile_names=0.0, macro_sub=rng.random() < 0.55, p_sub_count=0.8, p_usepulses=0.2, p_let_reg=0.4, p_let_count=0.5,
                        p_let_index=0.5, wild_numbers=rng.random() < 0.3, allow_reg_args=rng.random() < 0.3)
        prog = g.program()
        use_native = i % 4 == 0
        if use_native:
            g = gen.ExecGen(rng, n_macros=(0, 3), n_lets=(1, 4), n_maps=(1, 4), max_depth=rng.choice([2, 3]), p_shadow=0.3, p_let_reg=0.4,
                            p_let_count=0.5, p_let_index=0.5, p_let_arg=0.5, p_sub_count=0.8, macro_sub=rng.random() < 0.5)
            prog = g.program()
            rec.count("programs-with-the-gate-set-in-force")
            nat = "usepulses" if rng.random() < 0.5 else True
            if nat == "usepulses":
                rec.count("programs-loading-their-gates-from-a-pulse-module")
        if i % 4 == 2:
            # alias-chain programs (every element of the last alias used in every statement position, also indexed by a
            # macro parameter), chains of whole / sliced / counting-down aliases: see C06's build_program
            from . import c06

            nq = rng.randint(2, 5)
            chain, cur = [], nq
            for _ in range(rng.randint(1, 3)):
                spec = rng.choice(c06.level_specs(cur))
                if rng.random() < 0.3:
                    spec = ("slice", cur - 1, -1, -1)  # the whole source back to front
                chain.append(spec)
                cur = c06.spec_len(spec, cur)
            cov = {}
            prog, _refs = c06.build_program(nq, tuple(chain), rng.choice(["lit", "default", "let", "override"]), rng, rng.randrange(8), cov)
            use_native, nat = True, True
            chain_ov = cov
            rec.count("alias-chain-programs")
        else:
            chain_ov = None
        if not use_native and rng.random() < 0.12:
            # without a gate set a macro may carry the name of a bounding gate of subcircuit blocks
            ms = [x[1] for x in prog[1:] if x[0] == "macro"]
            if ms:
                prog = rename_macro(prog, rng.choice(ms), rng.choice(["prepare_all", "measure_all"]))
                rec.count("macro-named-like-a-bounding-gate")
        if chain_ov is None and rng.random() < 0.3:
            # aliases declared outside a macro and bounded by a constant, used inside a macro whose parameter has that
            # constant's name
            prog, na = add_outer_names_in_macro(rng, prog, gate="X" if use_native else "vfg", executable=use_native)
            rec.count("outer-aliases-used-in-a-macro-whose-parameter-shadows-their-constant", na)
        ov = make_override(rng, prog) if rng.random() < 0.6 else {}
        if chain_ov is None and any(s_[0] == "let" and s_[1] == "vfk" for s_ in prog[1:]) and rng.random() < 0.6:
            # the constant of the appended aliases is overridden (to a value that keeps every reference in range)
            nreg = [s_[2] for s_ in prog[1:] if s_[0] == "register"][0]
            ov = dict(ov, vfk=rng.randrange(nreg - 1))
            rec.count("outer-aliases-constant-overridden")
        if chain_ov is not None:
            ov = chain_ov
        keep = None
        if chain_ov is None and KEPT and rng.random() < 0.5 and all(isinstance(s_, tuple) for s_ in prog[1:]):
            # the override dictionary of the previous program, the very object, used again for this one
            lets_here = {s_[1]: s_[2] for s_ in prog[1:] if s_[0] == "let"}
            if all(k_ in lets_here and type(lets_here[k_]) is type(v_) for k_, v_ in KEPT_CONTENT.items()) and KEPT_CONTENT:
                ov, keep = dict(KEPT_CONTENT), KEPT
                rec.count("override-dictionary-object-kept-from-the-previous-program")
        if keep is None and ov:
            KEPT.clear()
            KEPT.update(ov)
            KEPT_CONTENT.clear()
            KEPT_CONTENT.update(ov)
            keep = KEPT
        seqs = rng.sample(SEQS, 12 if ctx.quick else 24) if (ctx.quick or i % 10) else SEQS
        for seq in seqs:
            process(ctx, dict({"prog": prog, "ov": ov, "seq": seq, "_dict": keep if ov else None}, **({"native": nat} if use_native else {})), seen)
        if ov and keep is not None and chain_ov is None:
            # the next program of the same caller: the same constants with other declared values (those the dictionary does
            # not name), the same dictionary object
            prog2 = tuple((("let", s_[1], (s_[2] + 1 if isinstance(s_[2], int) else s_[2] + 0.5)) if (isinstance(s_, tuple) and s_[0] == "let" and s_[1] not in ov
                           and not isinstance(s_[2], bool) and (not isinstance(s_[2], int) or 0 <= s_[2] <= 2)) else s_) for s_ in prog)
            if prog2 != prog:
                rec.count("override-dictionary-object-kept-for-a-program-with-other-declared-values")
                for seq in rng.sample(SEQS, 4):
                    process(ctx, dict({"prog": prog2, "ov": ov, "seq": seq, "_dict": keep}, **({"native": nat} if use_native else {})), seen)
        for fl in ({"expand_macro": True}, {"expand_let": True}, {"expand_let_map": True},
                   {"expand_macro": True, "expand_let": True}, {"expand_macro": True, "expand_let_map": True},
                   {"expand_let": True, "expand_let_map": True}):
            fc = dict({"prog": prog, "ov": ov, "flags": fl}, **({"native": nat} if use_native else {}))
            r = rng.random()
            if r < 0.3:
                fc["opt"] = "return_usepulses"
            elif r < 0.45:
                fc["opt"] = "file"
            if "opt" in fc:
                rec.count("parser-flags-with-another-option")
            process(ctx, fc, seen)
        if i <= 2:
            rec.sample({"ov": ov, "sequences": seqs[:6], "text": sx.to_text(prog)})
    monitors.report_contracts(rec)


def replay(ctx, case):
    prog = case_prog(case)
    st, fails, counters = (judge_flags if "flags" in case else judge)(case)
    for clause, detail in fails:
        ctx.rec.violation(sig("C10", clause, prog_features(prog)), detail, case)
