"""C11 -- analyses and transformations never modify their input circuit."""
import json
import os
import subprocess
import sys

import numpy as np

from .. import sx, gen, lib, meaning as M, monitors, harness, fingerprint
from .common import prog_features, sig, case_prog
from . import execcommon as X

RULE = ("random call histories (length 2-12, with repeats) of {expand_macros (+preserve_definitions), fill_in_let (+override), "
        "fill_in_map, expand_subcircuits, unit-timing normalisation, used-qubit analysis, text generation, emulation, output "
        "parsing} on ONE shared circuit object, including chained calls that feed one pass's output to another; monitors: "
        "icontract snapshot/ensure on the real functions comparing an identity-aware deep fingerprint of the argument before and "
        "after every call (also on the exception path), and comparison of every result with the result of the same call on a "
        "freshly parsed copy. Outputs are then mutated (append to body, insert into native gate table) and the input is "
        "fingerprinted again (reported as shared-substructure observations). thorough: the repository's own 297 tests run with the "
        "contracts on. non-trivial = history of >= 3 calls with >= 2 different functions; distinct = (program, history)")
ASSUMPTIONS = ["fingerprint = types, __dict__ contents, container order and aliasing structure of everything reachable from the argument",
               "mutating an *output* and seeing the input change is an observation, not a violation (the docstrings allow sharing)"]
TIERS = {"quick": {"shards": 8, "budget_s": 220}, "thorough": {"shards": 16, "budget_s": 420}}
REQUIRE = {"circuits-with-a-branch-statement": 150, "op:used_qubits": 300, "native:partial": 50, "op:expand_subcircuits_custom": 100, "histories": 500, "calls": 4000, "contract-evaluations": 4000, "results-compared-with-fresh": 4000,
           "op:run": 200, "op:parse_output": 200, "op:unit_timing": 200, "chained-calls": 300}

OPS = ["expand_macros", "expand_macros_preserve", "fill_in_let", "fill_in_let_ov", "fill_in_let_ov_b", "fill_in_map", "expand_subcircuits",
       "expand_subcircuits_custom", "expand_subcircuits_names", "unit_timing", "used_qubits", "generate", "run", "parse_output"]
CIRCUIT_OPS = {"expand_macros", "expand_macros_preserve", "fill_in_let", "fill_in_let_ov", "fill_in_let_ov_b", "fill_in_map", "expand_subcircuits",
               "expand_subcircuits_custom", "expand_subcircuits_names", "unit_timing"}
_CUSTOM = {}


def custom_defs():
    if not _CUSTOM:
        from jaqalpaq.core.gatedef import BusyGateDefinition

        _CUSTOM["p"] = BusyGateDefinition("my_prepare")
        _CUSTOM["m"] = BusyGateDefinition("my_measure")
    return _CUSTOM["p"], _CUSTOM["m"]


def partial_native():
    """A native gate set that lacks the bounding gates (they are then created on demand)."""
    g = dict(X.native())
    g.pop("prepare_all")
    g.pop("measure_all")
    g.pop("I_prepare_all", None)
    g.pop("I_measure_all", None)
    return g


def fold_sections(s):
    """prepare_all ; B ; measure_all  ->  subcircuit { B }   (so that a program needs no bounding gate definitions)."""
    if not isinstance(s, tuple):
        return s
    k = s[0]
    if k in ("circuit", "sequential_block"):
        items = [fold_sections(x) for x in s[1:]]
        out = []
        i = 0
        while i < len(items):
            x = items[i]
            if x == ("gate", "prepare_all"):
                j = i + 1
                while j < len(items) and items[j] != ("gate", "measure_all") and items[j] != ("gate", "prepare_all"):
                    j += 1
                if j < len(items) and items[j] == ("gate", "measure_all") and not any(
                        y[0] == "subcircuit_block" for it in items[i + 1:j] for y in sx.walk(it) if isinstance(it, tuple)):
                    out.append(("subcircuit_block", "") + tuple(items[i + 1:j]))
                    i = j + 1
                    continue
            out.append(x)
            i += 1
        return (k,) + tuple(out)
    if k == "loop":
        return ("loop", s[1], fold_sections(s[2]))
    return s


def do(op, c, ctxd):
    if op == "expand_macros":
        return lib.expand_macros(c)
    if op == "expand_macros_preserve":
        return lib.expand_macros(c, preserve_definitions=True)
    if op == "fill_in_let":
        return lib.fill_in_let(c)
    if op == "fill_in_let_ov":
        return lib.fill_in_let(c, dict(ctxd["ov"]))
    if op == "fill_in_let_ov_b":
        # the same names with other values (the next point of a sweep)
        return lib.fill_in_let(c, {k: v + 0.75 for k, v in ctxd["ov"].items()})
    if op == "fill_in_map":
        return lib.fill_in_map(c)
    if op == "expand_subcircuits":
        return lib.expand_subcircuits(c)
    if op == "expand_subcircuits_custom":
        return lib.expand_subcircuits(c, *custom_defs())
    if op == "expand_subcircuits_names":
        return lib.expand_subcircuits(c, "prep_x", "meas_x")
    if op == "unit_timing":
        return lib.unit_timing(c)
    if op == "used_qubits":
        return lib.used_qubits(c)
    if op == "generate":
        return lib.generate(c)
    if op == "run":
        np.random.seed(ctxd["npseed"])
        o = lib.budgeted(lib.run, 400000, c)
        if o[0] == "ok":
            return o[1]
        if o[0] == "budget":
            raise TimeoutError("step budget")
        raise RuntimeError("%s: %s" % (o[1], o[2]))
    if op == "parse_output":
        o = lib.budgeted(lib.parse_output, 400000, c, list(ctxd["outputs"]))
        if o[0] == "ok":
            return o[1]
        if o[0] == "budget":
            raise TimeoutError("step budget")
        raise RuntimeError("%s: %s" % (o[1], o[2]))
    raise ValueError(op)


def result_fp(op, r):
    """Value-level fingerprint of a result (independent of object identity)."""
    if op in CIRCUIT_OPS:
        t = lib.outcome(lib.generate, r)
        try:
            k = M.core_from_ir(r)
            m = (M.meaning(k, expand_macros=False), tuple(M.macro_meanings(k).items()), M.declarations(k))
        except Exception as ex:
            m = ("unreadable", type(ex).__name__)
        return ("circuit", t[1] if t[0] == "ok" else t[:2], repr(m), tuple(sorted(r.native_gates)))
    if op == "used_qubits":
        return ("used", tuple(sorted((k, tuple(sorted(v))) for k, v in dict(r).items())))
    if op == "generate":
        return ("text", r)
    subs, ros = X.result_view(r)
    return ("exec", tuple((s["index"], None if s["state"] is None else s["state"].round(12).tobytes(), tuple(s["readouts"]),
                           s["rf"].tobytes()) for s in subs), tuple(ros))


def call(op, c, ctxd):
    try:
        r = do(op, c, ctxd)
    except TimeoutError:
        return ("budget",), None
    except Exception as ex:
        from jaqalpaq.error import JaqalError

        return ("raise", "JaqalError" if isinstance(ex, JaqalError) else type(ex).__name__, str(ex)[:200]), None
    return ("ok", result_fp(op, r)), r


def branch_text(cases):
    """The experimental branch statement: one sequential block per measured state."""
    out = ["branch {"]
    for state, stmts in cases:
        lines = sx.to_text(("circuit",) + tuple(tuple(x) if isinstance(x, list) else x for x in stmts)).strip().split("\n")
        out.append("'%s': { %s }" % (state, " ; ".join(l.strip() for l in lines if l.strip())))
    out.append("}")
    return "\n".join(out) + "\n"


def judge(case, rec=None):
    if case.get("branch"):
        # the experimental branch statement is switched on for this circuit only
        import jaqalpaq.core.branch as bm

        old = bm.USE_EXPERIMENTAL_BRANCH
        bm.USE_EXPERIMENTAL_BRANCH = True
        try:
            return judge_(case, rec)
        finally:
            bm.USE_EXPERIMENTAL_BRANCH = old
    return judge_(case, rec)


def judge_(case, rec=None):
    prog = case_prog(case)
    hist = case["history"]
    text = sx.to_text(prog)
    if case.get("branch"):
        text += branch_text([(st, [sx.unnorm(x) if isinstance(x, list) else x for x in body]) for st, body in case["branch"]])
    nat = case.get("native", True)
    native = partial_native() if nat == "partial" else (X.native() if nat else None)
    o = lib.outcome(lib.parse, text, native)
    if o[0] != "ok":
        return "skipped:input-rejected", [], {}
    shared = o[1]
    ctxd = {"ov": case.get("ov") or {}, "npseed": case.get("npseed", 1), "outputs": case.get("outputs") or []}
    fails = []
    info = {"calls": 0, "compared": 0, "chained": 0, "sharing": {}}
    monitors.drain_contract_failures()
    fp0 = fingerprint.fp(shared)
    baseline = {}

    def fresh_result(op):
        if op not in baseline:
            f = lib.parse(text, native)
            baseline[op] = call(op, f, ctxd)[0]
        return baseline[op]

    results = []
    for step in hist:
        if isinstance(step, (list, tuple)):
            op1, op2 = step
            out1, r1 = call(op1, shared, ctxd)
            info["calls"] += 1
            if r1 is not None and op1 in CIRCUIT_OPS:
                out2, r2 = call(op2, r1, ctxd)
                info["calls"] += 1
                info["chained"] += 1
                # alternate: the input again after its output was processed
                out3, _ = call(op1, shared, ctxd)
                info["calls"] += 1
                exp = fresh_result(op1)
                info["compared"] += 1
                if out3 != exp and "budget" not in (out3[0], exp[0]):
                    fails.append(("history-dependent-result:" + op1, {"after": "chain %s->%s" % (op1, op2), "fresh": str(exp)[:300], "shared": str(out3)[:300]}))
                results.append((op1, r1))
                if r2 is not None and op2 in CIRCUIT_OPS:
                    results.append((op2, r2))
            continue
        op = step
        out, r = call(op, shared, ctxd)
        info["calls"] += 1
        exp = fresh_result(op)
        info["compared"] += 1
        if out != exp and "budget" not in (out[0], exp[0]):
            fails.append(("history-dependent-result:" + op, {"fresh": str(exp)[:300], "shared": str(out)[:300], "position": len(results)}))
        if op == "used_qubits" and out[0] == "ok" and out[1][0] == "used":
            # independent of any other call in this process: only this circuit's register, only its indices
            regs = {n: int(r_.size) for n, r_ in shared.registers.items() if not hasattr(r_, "alias_index") and r_.fundamental}
            foreign = [(k, list(v)) for k, v in out[1][1] if k not in regs or any(not (0 <= i < regs[k]) for i in v)]
            if foreign:
                fails.append(("used-qubits-outside-this-circuit", {"registers-of-the-circuit": regs, "reported": foreign}))
        if r is not None and op in CIRCUIT_OPS:
            results.append((op, r))
    for name, path, desc in monitors.drain_contract_failures():
        fails.append(("input-mutated:%s:%s" % (name, path), {"diff": desc}))
    if fingerprint.fp(shared) != fp0:
        fails.append(("shared-circuit-changed-over-history", {"diff": fingerprint.fp_diff(fp0, fingerprint.fp(shared))}))
    # mutation probes on outputs (observation only)
    for op, r in results[:4]:
        try:
            before = fingerprint.fp(shared)
            r.body.statements.append(r.body.statements[0] if r.body.statements else None)
            if fingerprint.fp(shared) != before:
                info["sharing"][op + ":body.statements"] = info["sharing"].get(op + ":body.statements", 0) + 1
            r.body.statements.pop()
            r.native_gates["__vf_probe__"] = None
            if fingerprint.fp(shared) != before:
                info["sharing"][op + ":native_gates"] = info["sharing"].get(op + ":native_gates", 0) + 1
            del r.native_gates["__vf_probe__"]
            r.registers["__vf_probe__"] = None
            if fingerprint.fp(shared) != before:
                info["sharing"][op + ":registers"] = info["sharing"].get(op + ":registers", 0) + 1
            del r.registers["__vf_probe__"]
        except Exception:
            pass
    return "ok", fails, info


def make_history(rng, n):
    h = []
    if rng.random() < 0.2:
        # a sweep: the same pass with the same names and changing values, back to back on one object
        h += ["fill_in_let_ov", "fill_in_let_ov_b", "fill_in_let_ov", "fill_in_let_ov_b"]
    for _ in range(n):
        if rng.random() < 0.25:
            h.append([rng.choice(sorted(CIRCUIT_OPS)), rng.choice(OPS)])
        else:
            h.append(rng.choice(OPS))
    return h


def process(ctx, case):
    rec = ctx.rec
    st, fails, info = judge(case)
    hist = case["history"]
    names = {s if isinstance(s, str) else s[0] for s in hist}
    rec.case([case["prog"], hist, sorted((case.get("ov") or {}).items())], nontrivial=len(hist) >= 3 and len(names) >= 2)
    if st != "ok":
        rec.count(st)
        return
    rec.count("histories")
    rec.count("native:%s" % case.get("native"))
    rec.count("calls", info["calls"])
    rec.count("results-compared-with-fresh", info["compared"])
    rec.count("chained-calls", info["chained"])
    for s in hist:
        for op in ([s] if isinstance(s, str) else s):
            rec.count("op:" + op)
    for k, v in info["sharing"].items():
        rec.count("shared_mutable_substructure:" + k, v)
    for clause, detail in fails:
        rec.violation(sig("C11", clause), detail, case)


def repo_tests_under_contracts(ctx):
    rec = ctx.rec
    report = os.path.join(harness.ROOT, ".scratch", "run", "c11-pytest-%d.json" % os.getpid())
    os.makedirs(os.path.dirname(report), exist_ok=True)
    env = dict(os.environ)
    env["VF_CONTRACT_REPORT"] = report
    cmd = [sys.executable, "-m", "pytest", "-q", "-p", "no:cacheprovider", "-p", "vf.pytest_plugin", "--timeout=120",
           "--deselect", "tests/ipc/test_ipc.py::IPCTester::test_bell_prep", os.path.join(harness.REPO, "tests")]
    try:
        p = subprocess.run(cmd, cwd=harness.REPO, env=env, capture_output=True, text=True, timeout=600)
    except subprocess.TimeoutExpired:
        rec.inconc("repository tests under contracts timed out")
        return
    try:
        with open(report) as fd:
            d = json.load(fd)
        os.remove(report)
    except Exception as ex:
        rec.inconc("repository tests under contracts: no report (%s) %s" % (ex, p.stdout[-300:]))
        return
    rec.note("repository_tests_under_contracts", {"pytest_tail": p.stdout.strip().splitlines()[-1:], "contract_evaluations": d["evals"],
                                                 "contract_failures": d["fails"][:5]})
    rec.count("repo-tests-contract-evaluations", sum(v for v in d["evals"].values()))
    for name, path, desc in d["fails"]:
        rec.violation(sig("C11", "input-mutated-under-repository-tests:%s:%s" % (name, path)), {"diff": desc}, {"kind": "pytest"})


def shard(ctx):
    rec = ctx.rec
    monitors.install_contracts()
    n = ctx.scale(3000, 50000)
    i = 0
    while i < n and not rec.expired():
        i += 1
        rng = ctx.rng
        exe = rng.random() < 0.7
        if exe:
            size = rng.choice([1, 2, 2, 3])
            g = gen.ExecGen(rng, reg_size=(size, size), max_depth=rng.choice([1, 2, 3]), body_len=(1, 3), n_maps=(0, 3),
                            n_macros=(0, 2), n_lets=(1, 3), loop_counts=(0, 1, 2))
        else:
            g = gen.ProgGen(rng, n_macros=(0, 3), max_depth=3, macro_sub=False, p_hostile_names=0.0, wild_numbers=False)
        prog = g.program()
        ov = {}
        for s in prog[1:]:
            if s[0] == "let" and isinstance(s[2], float) and rng.random() < 0.5:
                ov[s[1]] = rng.uniform(-3, 3)
        nvis = rng.randint(0, 6)
        nat = exe
        if exe and rng.random() < 0.3:
            folded = fold_sections(prog)
            if not any(x[0] == "gate" and x[1] in ("prepare_all", "measure_all") for x in sx.walk(folded)):
                prog, nat = folded, "partial"
        case = {"prog": prog, "native": nat, "ov": ov, "npseed": rng.randrange(1 << 30),
                "outputs": [rng.randrange(2) for _ in range(nvis)], "history": make_history(rng, rng.randint(2, 12))}
        if not exe:
            case["history"] = [s for s in case["history"] if (s if isinstance(s, str) else s[1]) not in ("run", "parse_output")] or ["generate", "expand_macros"]
        if rng.random() < 0.15:
            # the experimental branch statement after the body, its cases holding copies of simple body statements
            simple = [x for x in prog[1:] if x[0] == "gate" and x[1] not in ("prepare_all", "measure_all")]
            if simple:
                nq = 1
                case["branch"] = [(format(k, "0%db" % nq), [rng.choice(simple) for _ in range(rng.randint(1, 2))]) for k in range(2)]
                case["history"] = [h for h in case["history"] if (h if isinstance(h, str) else h[1]) not in ("run", "parse_output")] or ["expand_macros", "generate"]
                rec.count("circuits-with-a-branch-statement")
        process(ctx, case)
        if i <= 2:
            rec.sample({"history": case["history"], "text": sx.to_text(prog)})
    rec.counters["contract-evaluations"] = sum(v for k, v in monitors.CONTRACT_EVALS.items())
    if not ctx.quick and ctx.index == 0:
        repo_tests_under_contracts(ctx)
    monitors.report_contracts(rec, as_violation=True)


def replay(ctx, case):
    if case.get("kind") == "pytest":
        repo_tests_under_contracts(ctx)
        return
    monitors.install_contracts()
    st, fails, info = judge(case)
    for clause, detail in fails:
        ctx.rec.violation(sig("C11", clause), detail, case)
