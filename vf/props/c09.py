"""C09 -- subcircuit blocks mean prepare_all ... measure_all."""
import numpy as np

from .. import sx, gen, lib, meaning as M, monitors, minimise, gateset
from .common import header_diff, native_names, prog_features, sig, case_prog
from .c11 import fold_sections

RULE = ("(a) pass: random programs (anonymous and native gate sets) with subcircuit blocks at top level, in loops, in "
        "sequential blocks and inside macros, with and without counts, mixed with explicit prepare/measure sections; oracle = "
        "reference expansion on the input IR; (b) execution: executable programs run through run_jaqal_circuit and "
        "parse_jaqal_output_list in both spellings (subcircuit {B} vs prepare_all;B;measure_all) with the same numpy seed; "
        "non-trivial = program contains a subcircuit block; distinct = S-expression + mode")
ASSUMPTIONS = ["reference expansion in vf/meaning.py", "harness native gate set (vf/gateset.py)"]
TIERS = {"quick": {"shards": 8, "budget_s": 180}, "thorough": {"shards": 16, "budget_s": 300}}
REQUIRE = {"macro-named-like-a-bounding-gate": 150, "native:only-one-bounding-gate": 40, "caller:names-mixed": 100, "subcircuit-body-with-explicit-prepare-or-measure": 300, "route:build": 500, "native:partial": 100, "calls-after-earlier-call-on-same-object": 500, "sub-in-macro": 20, "sub-in-loop": 20, "mode:pass": 200, "mode:exec": 100, "native-bounding-gates": 50,
           "caller-bounding-gates": 20, "exec-readouts-compared": 100}

NATIVE = None


def native():
    global NATIVE
    if NATIVE is None:
        NATIVE = gateset.make()
    return NATIVE


def has_sub_ir(block):
    """Is a subcircuit block reachable from this block -- through nested blocks, loops and the
    *definitions that macro calls refer to* (GateStatement.gate_def)?"""
    from jaqalpaq.core import BlockStatement, LoopStatement, GateStatement, Macro

    stack = [block]
    seen = set()
    while stack:
        s = stack.pop()
        if id(s) in seen:
            continue
        seen.add(id(s))
        if isinstance(s, LoopStatement):
            stack.append(s.statements)
        elif isinstance(s, BlockStatement):
            if s.subcircuit:
                return True
            stack.extend(s.statements)
        elif isinstance(s, GateStatement) and isinstance(s.gate_def, Macro):
            stack.append(s.gate_def.body)
    return False


def gate_statement_ids(block):
    from jaqalpaq.core import BlockStatement, LoopStatement, GateStatement

    out = set()
    stack = [block]
    while stack:
        s = stack.pop()
        if isinstance(s, GateStatement):
            out.add(id(s))
        elif isinstance(s, LoopStatement):
            stack.append(s.statements)
        elif isinstance(s, BlockStatement):
            stack.extend(s.statements)
    return out


NAMED = []


def count_sub_ir(c):
    """Subcircuit blocks in the body and in the macro definitions of a circuit (each is expanded where it stands)."""
    from jaqalpaq.core import BlockStatement, LoopStatement

    n = 0
    stack = [c.body] + [m.body for m in c.macros.values()]
    seen = set()
    while stack:
        s_ = stack.pop()
        if id(s_) in seen:
            return None  # shared objects: not counted
        seen.add(id(s_))
        if isinstance(s_, LoopStatement):
            stack.append(s_.statements)
        elif isinstance(s_, BlockStatement):
            if s_.subcircuit:
                n += 1
            stack.extend(s_.statements)
    return n


def bounding_defs(block, pname, mname, exclude=()):
    """gate_def objects of every prepare/measure statement reachable from block that the pass
    created (statements that already existed in the input are excluded by identity)."""
    from jaqalpaq.core import BlockStatement, LoopStatement, GateStatement

    out = []
    stack = [block]
    while stack:
        s = stack.pop()
        if isinstance(s, GateStatement):
            if s.name in (pname, mname) and id(s) not in exclude:
                out.append(s.gate_def)
                NAMED.append((s.name, s.gate_def))
        elif isinstance(s, LoopStatement):
            stack.append(s.statements)
        elif isinstance(s, BlockStatement):
            stack.extend(s.statements)
    return out


def judge_pass(case):
    prog = case_prog(case)
    use_native = bool(case.get("native"))
    caller = case.get("caller")  # None | 'defs' | 'names'
    if not sx.legal_nesting(prog):
        return "skipped:illegal-nesting", []
    gates = None
    if case.get("native") == "partial":
        # a gate set that lacks the bounding gates (or, with `keep`, has just one of them): the pass has to supply what is
        # missing without touching its input -- and to use what is there
        lacking = ("prepare_all", "measure_all", "I_prepare_all", "I_measure_all")
        gates = {k: v for k, v in native().items() if k not in lacking or k == case.get("keep")}
    elif use_native:
        gates = native()
    if case.get("route") == "build":
        # S-expression route; a loop whose only statement is a subcircuit block gets that block as its body directly
        # (the builder accepts this shape, the text grammar has no spelling for it)
        o = lib.outcome(lib.build, loop_body_is_subcircuit(prog), gates)
    else:
        o = lib.outcome(lib.parse, sx.to_text(prog), gates)
    if o[0] != "ok":
        return "skipped:input-rejected:" + o[1], []
    c = o[1]
    native_before = dict(c.native_gates)
    try:
        kc = M.core_from_ir(c)
        expected = M.meaning(kc, expand_macros=False, expand_sub=True, expand_a1=True)
        exp_macros = M.macro_meanings(kc, expand_sub=True, expand_a1=True)
    except M.MeaningError as ex:
        return "skipped:no-reference-meaning:" + ex.kind, []
    except M.OracleError as ex:
        return "inconclusive:oracle:%s" % ex, []
    from jaqalpaq.core import GateDefinition

    pname, mname = "prepare_all", "measure_all"
    args = ()
    pdef = mdef = None
    if caller == "defs":
        pdef, mdef = GateDefinition("my_prep"), GateDefinition("my_meas")
        args = (pdef, mdef)
        pname, mname = "my_prep", "my_meas"
    elif caller == "defs-native-names":
        # the caller's own definitions carry the names of native gates: the caller's must be used
        from jaqalpaq.core.gatedef import BusyGateDefinition

        pdef, mdef = BusyGateDefinition("prepare_all"), BusyGateDefinition("measure_all")
        args = (pdef, mdef)
    elif caller == "names" and use_native:
        args = ("prepare_all", "measure_all")
    elif caller == "names-new":
        args = ("prep_x", "meas_x")
        pname, mname = "prep_x", "meas_x"
    elif caller == "names-mixed-p":
        # one name the gate set has, one it lacks
        args = ("prepare_all", "meas_x")
        mname = "meas_x"
    elif caller == "names-mixed-m":
        args = ("prep_x", "measure_all")
        pname = "prep_x"
    fails = []
    if case.get("prior"):
        # an earlier call on the SAME circuit object with other bounding gates must leave nothing behind
        if args:
            lib.outcome(lib.expand_subcircuits, c)
        else:
            lib.outcome(lib.expand_subcircuits, c, GateDefinition("other_prep"), GateDefinition("other_meas"))
    o = lib.outcome(lib.expand_subcircuits, c, *args)
    clash = sorted(nm for nm in (pname, mname) if nm in c.macros)
    if clash and (count_sub_ir(c) or 0) > 0:
        # a macro of the circuit carries the name of a bounding gate: the gate the pass would insert would be taken for a
        # call of that macro, wherever the macro is declared -- the pass has to refuse
        if o[0] == "ok":
            return "ok", [("bounding-gate-name-taken-by-a-macro-but-accepted", {"names": clash, "macros": list(c.macros)})]
        if o[0] == "exc":
            return "ok", [("crash:" + o[1], {"error": o[2]})]
        return "ok", []
    if clash:
        # no subcircuit block at all: nothing to insert; calls of that macro are ordinary calls (the clauses below, which
        # tell inserted gates by their names, do not apply)
        return "ok", ([("crash:" + o[1], {"error": o[2]})] if o[0] == "exc" else [])
    if o[0] == "jaqal":
        return "ok", [("rejected-valid-program", {"error": o[2]})]
    if o[0] == "exc":
        return "ok", [("crash:" + o[1], {"error": o[2]})]
    r = o[1]
    try:
        if has_sub_ir(r.body):
            fails.append(("subcircuit-left:body", {}))
        if any(has_sub_ir(m.body) for m in r.macros.values()):
            fails.append(("subcircuit-left:macro", {}))
        try:
            kr = M.core_from_ir(r)
        except M.OracleError as ex:
            return "ok", fails + [("malformed-result", {"error": str(ex)[:200]})]
        got = M.meaning(kr, expand_macros=False, expand_a1=True)
        got_macros = M.macro_meanings(kr, expand_a1=True)
        if caller in ("defs", "names-new", "names-mixed-p", "names-mixed-m"):
            ren = lambda t: _rename(t, {"my_prep": "prepare_all", "my_meas": "measure_all", "prep_x": "prepare_all", "meas_x": "measure_all"})
            got, got_macros = ren(got), {k: (p, ren(b)) for k, (p, b) in got_macros.items()}
        if not M.tree_equal(expected, got):
            fails.append(("meaning-differs", {"diff": M.first_diff(expected, got)}))
        if not M.tree_equal(tuple(exp_macros.items()), tuple(got_macros.items())):
            fails.append(("macros-differ", {"diff": M.first_diff(tuple(exp_macros.items()), tuple(got_macros.items()))}))
        # every other statement stays: as many loops and as many blocks (a subcircuit block becomes one plain block),
        # empty ones included -- the meaning normal form cannot see an empty block, the statement count can
        cin, cout = shape_counts(c), shape_counts(r)
        if cin != cout:
            fails.append(("statements-added-or-dropped", {"before (loops, blocks, empty blocks, empty loops)": cin, "after": cout}))
        hd = header_diff(kc, kr, what=("lets", "regs", "usepulses", "macros"))
        if hd:
            fails.append(("header-changed:" + "+".join(h[0] for h in hd), {"diff": hd}))
        if native_names(c) != native_names(r) and case.get("native") != "partial":
            fails.append(("native-gates-changed", {"before": native_names(c), "after": native_names(r)}))
        now = dict(c.native_gates)
        if list(now) != list(native_before) or any(now[k] is not native_before[k] for k in now):
            fails.append(("input-header-modified:native-gates", {"added": sorted(set(now) - set(native_before)),
                                                                "removed": sorted(set(native_before) - set(now))}))
        # which definitions bound the subcircuits
        old = gate_statement_ids(c.body)
        for m in c.macros.values():
            old |= gate_statement_ids(m.body)
        del NAMED[:]
        defs = bounding_defs(r.body, pname, mname, old)
        for m in r.macros.values():
            defs += bounding_defs(m.body, pname, mname, old)
        # one statement of each of the two names in effect per subcircuit block of the input, and no other new zero-argument
        # statements (a caller's name that the gate set does not know is still the caller's name)
        nsub_in = count_sub_ir(c)
        got_names = [nm for nm, _d in NAMED]
        if nsub_in is not None and pname != mname and (got_names.count(pname) != nsub_in or got_names.count(mname) != nsub_in):
            fails.append(("bounding-gates-not-the-names-in-effect", {"subcircuit blocks": nsub_in, pname: got_names.count(pname), mname: got_names.count(mname)}))
        if caller not in ("defs", "defs-native-names"):
            # a bounding gate named like a gate of the circuit's own gate set IS that gate, each name on its own
            for nm, d in NAMED:
                if nm in native_before and d is not native_before[nm]:
                    fails.append(("bounding-gate-not-native:one-of-the-two-names-missing-from-the-gate-set"
                                  if (pname in native_before) != (mname in native_before) else "bounding-gate-not-native:by-name", {"gate": nm}))
                    break
        if caller in ("defs", "defs-native-names"):
            if any(d is not pdef and d is not mdef for d in defs):
                fails.append(("bounding-gate-not-callers" + (":caller-uses-native-name" if caller != "defs" else ""), {}))
        elif use_native and case.get("native") != "partial" and caller in (None, "names"):
            ng = c.native_gates
            if any(d is not ng["prepare_all"] and d is not ng["measure_all"] for d in defs):
                fails.append(("bounding-gate-not-native", {}))
    except M.OracleError as ex:
        return "inconclusive:oracle:%s" % ex, fails
    except M.MeaningError as ex:
        fails.append(("result-has-no-meaning:" + ex.kind, {"error": str(ex)}))
    return "ok", fails


def explicit_bounds_inside(rng, prog):
    subs = [b for b in sx.walk(prog) if b[0] == "subcircuit_block"]
    if not subs:
        return None
    target = rng.choice(subs)
    r = rng.random()
    body = target[2:]
    if r < 0.4:
        body = (("gate", "prepare_all"),) + body
    elif r < 0.8:
        body = body + (("gate", "measure_all"),)
    else:
        body = (("gate", "prepare_all"),) + body + (("gate", "measure_all"),)
    new = target[:2] + body
    done = [False]

    def rw(s):
        if not isinstance(s, tuple):
            return s
        if s is target and not done[0]:
            done[0] = True
            return new
        return tuple(rw(x) for x in s)

    return rw(prog)


def shape_counts(circ):
    from jaqalpaq.core import BlockStatement, LoopStatement

    n = {"loops": 0, "blocks": 0, "empty-blocks": 0, "empty-loops": 0}

    def walk(x, is_loop_body=False):
        if isinstance(x, LoopStatement):
            n["loops"] += 1
            if len(x.statements.statements) == 0 and not x.statements.subcircuit:
                n["empty-loops"] += 1
            walk(x.statements, True)
        elif isinstance(x, BlockStatement):
            if not is_loop_body:
                n["blocks"] += 1
                if len(x.statements) == 0 and not x.subcircuit:
                    n["empty-blocks"] += 1
            for y in x.statements:
                walk(y)

    for st in circ.body.statements:
        walk(st)
    for m in circ.macros.values():
        for st in m.body.statements:
            walk(st)
    return (n["loops"], n["blocks"], n["empty-blocks"], n["empty-loops"])


def loop_body_is_subcircuit(s):
    if not isinstance(s, tuple):
        return s
    if s[0] == "loop" and s[2][0] == "sequential_block" and len(s[2]) == 2 and s[2][1][0] == "subcircuit_block":
        return ("loop", s[1], loop_body_is_subcircuit(s[2][1]))
    return tuple(loop_body_is_subcircuit(x) for x in s)


def _rename(t, m):
    if isinstance(t, tuple):
        if len(t) == 3 and t[0] == "gate" and t[1] in m:
            return ("gate", m[t[1]], t[2])
        return tuple(_rename(x, m) for x in t)
    return t


def respell(s):
    """subcircuit {B}  ->  prepare_all ; B ; measure_all  (spliced into the parent sequence)."""
    k = s[0]
    if k == "circuit" or k == "sequential_block":
        out = []
        for x in s[1:]:
            if isinstance(x, tuple) and x[0] == "subcircuit_block":
                out.append(("gate", "prepare_all"))
                out.extend(respell(("sequential_block",) + x[2:])[1:])
                out.append(("gate", "measure_all"))
            else:
                out.append(respell(x) if isinstance(x, tuple) else x)
        return (k,) + tuple(out)
    if k == "parallel_block":
        return (k,) + tuple(respell(x) for x in s[1:])
    if k == "loop":
        return ("loop", s[1], respell(s[2]))
    if k == "macro":
        return s[:-1] + (respell(s[-1]),)
    return s


def exec_view(res):
    subs = []
    for sc in res.subcircuits:
        sv = getattr(sc, "state_vector", None)
        subs.append({"index": sc.index, "state": None if sv is None else np.asarray(sv).copy(),
                     "readouts": [r.index for r in sc.readouts], "rf": np.asarray(sc.relative_frequency_by_int).copy()})
    ros = [(r.index, r.subcircuit.index, r.as_int, r.as_str) for r in res.readouts]
    return subs, ros


def judge_exec(case):
    prog = case_prog(case)
    seed = int(case.get("npseed", 1))
    p2 = respell(prog)
    oa = lib.outcome(lib.parse, sx.to_text(prog), native())
    ob = lib.outcome(lib.parse, sx.to_text(p2), native())
    if oa[0] != "ok" or ob[0] != "ok":
        return "skipped:input-rejected", []
    fails = []
    np.random.seed(seed)
    ra = lib.budgeted(lib.run, 400000, oa[1])
    np.random.seed(seed)
    rb = lib.budgeted(lib.run, 400000, ob[1])
    if "budget" in (ra[0], rb[0]):
        if ra[0] == rb[0]:
            return "skipped:step-budget", []  # termination is C08's clause
        return "ok", [("exec-termination-differs", {"subcircuit": ra[0], "explicit": rb[0]})]
    if ra[0] != rb[0]:
        return "ok", [("exec-acceptance-differs", {"subcircuit": ra[:1] + ra[1:][:2] if ra[0] != "ok" else "ok",
                                                   "explicit": rb[:1] + rb[1:][:2] if rb[0] != "ok" else "ok"})]
    if ra[0] != "ok":
        return "skipped:exec-rejected:" + ra[1], []
    sa, roa = exec_view(ra[1])
    sb, rob = exec_view(rb[1])
    if len(sa) != len(sb):
        fails.append(("exec-subcircuit-count", {"subcircuit": len(sa), "explicit": len(sb)}))
    else:
        for x, y in zip(sa, sb):
            if x["index"] != y["index"] or x["readouts"] != y["readouts"] or not np.array_equal(x["rf"], y["rf"]):
                fails.append(("exec-attribution", {"subcircuit": (x["index"], x["readouts"]), "explicit": (y["index"], y["readouts"])}))
                break
            if not np.allclose(x["state"], y["state"], atol=1e-12):
                fails.append(("exec-state", {"index": x["index"]}))
                break
    if roa != rob:
        fails.append(("exec-readouts", {"subcircuit": roa[:8], "explicit": rob[:8]}))
    # hardware output lists
    n = len(roa)
    outs = [r[2] for r in roa]
    pa = lib.budgeted(lib.parse_output, 400000, oa[1], list(outs))
    pb = lib.budgeted(lib.parse_output, 400000, ob[1], list(outs))
    if pa[0] != pb[0]:
        fails.append(("output-acceptance-differs", {"subcircuit": str(pa[:3])[:200], "explicit": str(pb[:3])[:200]}))
    elif pa[0] == "ok":
        va, vb = exec_view(pa[1]), exec_view(pb[1])
        if va[1] != vb[1] or len(va[0]) != len(vb[0]) or any(
                x["readouts"] != y["readouts"] or not np.array_equal(x["rf"], y["rf"]) for x, y in zip(va[0], vb[0])):
            fails.append(("output-parse-differs", {"subcircuit": va[1][:8], "explicit": vb[1][:8]}))
        if va[1] != roa:
            fails.append(("output-parse-vs-emulator", {"parsed": va[1][:8], "emulated": roa[:8]}))
    return "ok" if n or True else "ok", fails


def judge(case):
    if case.get("mode") == "exec":
        return judge_exec(case)
    return judge_pass(case)


def _clauses(case):
    return {f[0] for f in judge(case)[1]}


def process(ctx, case, seen):
    rec = ctx.rec
    prog = case_prog(case)
    nsub = sum(1 for s in sx.walk(prog) if s[0] == "subcircuit_block")
    st, fails = judge(case)
    rec.case([prog, case.get("mode"), case.get("native"), case.get("caller")], nontrivial=nsub > 0)
    rec.count("mode:" + case.get("mode", "pass"))
    if st != "ok":
        rec.count(":".join(st.split(":")[:3]))
        if st.startswith("inconclusive"):
            rec.inconc(st)
        return
    rec.count("judged")
    f = prog_features(prog)
    if "sub-in-macro" in f:
        rec.count("sub-in-macro")
    if any(s[0] == "loop" and any(x[0] == "subcircuit_block" for x in sx.walk(s[2])) for s in sx.walk(prog)):
        rec.count("sub-in-loop")
    if case.get("mode") != "exec":
        if str(case.get("caller")).startswith("names-mixed"):
            rec.count("caller:names-mixed")
        if case.get("caller") in ("defs", "defs-native-names"):
            rec.count("caller-bounding-gates")
            rec.count("caller:" + case["caller"])
        elif case.get("native"):
            rec.count("native-bounding-gates")
    else:
        rec.count("exec-readouts-compared")
    for clause, detail in fails:
        key = (clause, tuple(sorted(f)))
        seen[key] = seen.get(key, 0) + 1
        if seen[key] > 2:
            rec.count("unminimised-repeat:" + clause)
            continue
        base = {k: v for k, v in case.items() if k != "prog"}
        if base.get("prior") and clause in _clauses(dict(base, prog=prog, prior=False)):
            base.pop("prior")
        small = minimise.minimise(prog, lambda p: clause in _clauses(dict(base, prog=p)), budget=200)
        small_case = dict(base, prog=small)
        d2 = [x for x in judge(small_case)[1] if x[0] == clause]
        feats = prog_features(small)
        if base.get("prior"):
            feats.add("after-earlier-call-on-same-object")
        rec.violation(sig("C09", clause, feats), d2[0][1] if d2 else detail, small_case)


def shard(ctx):
    rec = ctx.rec
    monitors.install_contracts()
    n = ctx.scale(9000, 100000)
    seen = {}
    i = 0
    while i < n and not rec.expired():
        i += 1
        rng = ctx.rng
        r = rng.random()
        if r < 0.45:
            g = gen.ProgGen(rng, n_macros=(0, 3), max_depth=rng.choice([2, 3, 4]), macro_sub=rng.random() < 0.6,
                            p_usepulses=0.3, p_hostile_names=0.05, wild_numbers=False, p_sub_count=0.6)
            case = {"prog": g.program(), "mode": "pass", "native": False, "caller": rng.choice([None, None, "defs"])}
        elif r < 0.7:
            g = gen.ExecGen(rng, max_depth=rng.choice([2, 3]), reg_size=(1, 4))
            case = {"prog": g.program(), "mode": "pass", "native": True,
                    "caller": rng.choice([None, "names", "defs", "defs-native-names", "names-mixed-p", "names-mixed-m"])}
        else:
            g = gen.ExecGen(rng, max_depth=rng.choice([1, 2, 3]), reg_size=(1, 4), loop_counts=(0, 1, 2, 3),
                            body_len=(1, 4))
            case = {"prog": g.program(), "mode": "exec", "npseed": rng.randrange(1 << 30)}
        if case["mode"] == "pass" and case.get("native") is True and rng.random() < 0.35:
            folded = fold_sections(case["prog"])
            if not any(x[0] == "gate" and x[1] in ("prepare_all", "measure_all") for x in sx.walk(folded)):
                case["prog"], case["native"] = folded, "partial"
                case["caller"] = rng.choice([None, "defs", "names-new"])
                rec.count("native:partial")
                if rng.random() < 0.5:
                    case["keep"] = rng.choice(["prepare_all", "measure_all"])
                    rec.count("native:only-one-bounding-gate")
        if case["mode"] == "pass" and case.get("native") is False and rng.random() < 0.12:
            # without a gate set a macro may carry the name of a bounding gate; it may be declared before or after the macros
            # that hold subcircuit blocks
            ms_ = [x[1] for x in case["prog"][1:] if x[0] == "macro"]
            if ms_:
                from .c10 import rename_macro

                case["prog"] = rename_macro(case["prog"], rng.choice(ms_), rng.choice(["prepare_all", "measure_all"]) if case.get("caller") != "defs" else rng.choice(["my_prep", "my_meas"]))
                rec.count("macro-named-like-a-bounding-gate")
        if case["mode"] == "pass" and rng.random() < 0.25:
            # a subcircuit block whose body itself starts with a prepare gate or ends with a measure gate: the pass
            # still adds its own bounding gates (what the result then means is another question -- C12)
            p2 = explicit_bounds_inside(rng, case["prog"])
            if p2 is not None:
                case["prog"] = p2
                rec.count("subcircuit-body-with-explicit-prepare-or-measure")
        if case["mode"] == "pass" and rng.random() < 0.3:
            case["route"] = "build"
            if rng.random() < 0.5:
                # make sure the shape occurs: a loop around a lone (possibly empty) subcircuit block
                extra = ("loop", rng.choice([0, 1, 2, 3]), ("sequential_block", ("subcircuit_block", rng.choice(["", 2])) + (
                    () if rng.random() < 0.5 else (("gate", "prepare_all"),)[:0])))
                case["prog"] = case["prog"] + (extra,)
            rec.count("route:build")
        if case["mode"] == "pass" and rng.random() < 0.3:
            case["prior"] = True
            rec.count("calls-after-earlier-call-on-same-object")
        process(ctx, case, seen)
        if i <= 3:
            rec.sample({k: v for k, v in case.items() if k != "prog"} | {"text": sx.to_text(case["prog"])})
    monitors.report_contracts(rec)


def replay(ctx, case):
    st, fails = judge(case)
    prog = case_prog(case)
    for clause, detail in fails:
        ctx.rec.violation(sig("C09", clause, prog_features(prog)), detail, case)
