"""C06 -- every qubit reference resolves to the right physical qubit through aliases."""
import itertools

import numpy as np

from .. import sx, gen, lib, meaning as M, monitors, gateset, refexec
from .common import sig, case_prog
from . import execcommon as X

RULE = ("alias chains over one register: bounded-exhaustive over register sizes 1..5 (thorough 1..6) x every in-range "
        "(start, stop, step) slice / whole-register alias / single-qubit alias per level, chain depth 1..2 complete (thorough: "
        "depth 3 complete for sizes <= 4), with literal, defaulted and let-valued bounds, every index of the final alias; random "
        "chains to depth 6. Each reference is used at top level, in a block, in a loop, in a macro body and as a macro argument. "
        "Expected physical index = composition of start+i*step along the declarations, computed from the model. Consumers "
        "compared: NamedQubit.resolve_qubit, fill_in_map, get_used_qubit_indices, the emulator (X on the reference => outcome "
        "2^k certain) and the pyGSTi label. non-trivial = chain has a strided or offset slice; distinct = (size, chain, style)")
ASSUMPTIONS = ["model arithmetic on declarations (vf/meaning.py core_from_sx + Evaluator.elems)",
               "zero steps and out-of-range slices are not generated here (C14)"]
TIERS = {"quick": {"shards": 8, "budget_s": 240}, "thorough": {"shards": 16, "budget_s": 600}}
REQUIRE = {"same-statement-text-before-a-macro-whose-parameter-has-the-index-name": 40, "consumer:whole-register-argument": 5000, "consumer:resolution-in-context": 300, "consumer:resolution-in-context:argument-handed-to-an-inner-macro": 100, "invalid-reference:consumers-observed": 1000, "chain-with-slice-counting-down": 500, "references-checked": 2000, "consumer:resolve_qubit": 2000, "consumer:fill_in_map": 2000,
           "consumer:used_qubits": 2000, "consumer:emulator": 1000, "consumer:pygsti": 500, "style:let": 200, "style:override": 200,
           "style:default": 200, "depth>=2": 500, "position:macro-arg": 200, "position:macro-body": 200, "position:macro-index": 200, "position:single-in-shadowing-macro": 200}

_PYGSTI = [None]
_BACKEND = [None]


def shared_backend():
    if _BACKEND[0] is None:
        from jaqalpaq.emulator.unitary import UnitarySerializedEmulator

        _BACKEND[0] = UnitarySerializedEmulator()
    return _BACKEND[0]


def pygsti_label():
    if _PYGSTI[0] is None:
        try:
            from jaqalpaq.emulator.pygsti.circuit import pygsti_label_from_statement

            _PYGSTI[0] = pygsti_label_from_statement
        except Exception as ex:  # pragma: no cover
            _PYGSTI[0] = ex
    return _PYGSTI[0]


def slices(n):
    """Every (start, stop, step) over a source of n elements whose elements are in range and non-empty."""
    out = []
    for start in range(n):
        for step in range(1, n + 1):
            for stop in range(start + 1, n + 1):
                idx = list(range(start, stop, step))
                if idx and idx[-1] < n and stop <= n:
                    out.append((start, stop, step))
    # slices counting down: every (start, step, element count), with the tightest and the loosest stop
    for start in range(n):
        for step in range(1, n + 1):
            for cnt in range(1, start // step + 2):
                last = start - (cnt - 1) * step
                for stop in sorted({last - 1, max(last - step, -1)}):
                    out.append((start, stop, -step))
    return out


def level_specs(n):
    """All alias declarations over a source with n elements: ('whole',), ('slice', a, b, c)."""
    return [("whole",)] + [("slice",) + s for s in slices(n)]


def spec_len(spec, n):
    if spec[0] == "whole":
        return n
    return len(range(spec[1], spec[2], spec[3]))


def build_program(n, chain, style, rng, offset=0, ov=None):
    """Program exercising every index of the final alias in several statement positions.
    style: 'lit' | 'default' | 'let' | 'override' -- how slice bounds / indices are written.
    With 'override' every let is *declared* with a benign default (0 for starts and indices, the
    source size for stops, 1 for steps, n for the register size) and the chain's real values are
    supplied through the override dictionary `ov` (filled in by this function)."""
    lets = {}
    header = []
    counter = [0]

    def val(v, role="index", default=None):
        if style == "let" and rng.random() < 0.7:
            name = "c%d" % v if v >= 0 else "m%d" % -v
            if name not in lets:
                lets[name] = v
            return name
        if style == "override" and rng.random() < 0.7:
            counter[0] += 1
            name = "o%d" % counter[0]
            lets[name] = {"index": 0, "start": 0, "step": 1}.get(role, v) if role != "stop" else n
            if role == "size":
                lets[name] = n
            if default is not None:
                lets[name] = default
            ov[name] = v
            return name
        return v

    reg_size = n
    names = ["q"]
    src_len = n
    maps = []
    for li, spec in enumerate(chain):
        name = "a%d" % li
        if spec[0] == "whole":
            maps.append(("map", name, names[-1]))
        else:
            st, sp, se = spec[1:]
            # declared defaults of overridden lets must give a legal, maximal alias in the same direction
            down = se < 0
            s_st = None if (style == "default" and st == 0) else val(st, "start", src_len - 1 if down else None)
            s_sp = None if (style == "default" and sp == src_len) else val(sp, "stop", -1 if down else src_len)
            s_se = None if (style == "default" and se == 1) else val(se, "step", -1 if down else None)
            maps.append(("map", name, names[-1], s_st, s_sp, s_se))
        src_len = spec_len(spec, src_len)
        names.append(name)
    final = names[-1]
    size_expr = val(reg_size, "size") if style in ("let", "override") else reg_size
    body = []
    singles = []
    refs = []  # (statement description, reference sexpr)
    for i in range(src_len):
        idx = val(i)
        ref = ("array_item", final, idx)
        pos = ("top", "block", "loop", "macro-body", "macro-arg", "single", "macro-index", "single-in-shadowing-macro", "macro-nested-index")[(i + offset) % 9]
        refs.append((pos, i, ref))
    macros = []
    tail = []
    for pos, i, ref in refs:
        g = ("gate", "X", ref)
        if pos == "top":
            sec = [g]
        elif pos == "block":
            sec = [("parallel_block", ("sequential_block", g))]
        elif pos == "loop":
            sec = [("loop", 1, ("sequential_block", g))]
        elif pos == "macro-body":
            mname = "mb%d" % i
            macros.append(("macro", mname, ("sequential_block", g)))
            sec = [("gate", mname)]
        elif pos == "macro-arg":
            mname = "ma%d" % i
            macros.append(("macro", mname, "p", ("sequential_block", ("gate", "X", "p"))))
            sec = [("gate", mname, ref)]
        elif pos == "macro-index":
            # the alias is indexed by a macro parameter; the call supplies the index
            mname = "mi%d" % i
            # the parameter may carry the name of a let that a slice bound uses: inside the macro the name means the
            # parameter, in the alias declarations it still means the let
            usable = [nm for nm in sorted(lets) if isinstance((ov or {}).get(nm, lets[nm]), int) and 0 <= (ov or {}).get(nm, lets[nm]) < src_len]
            pname = rng.choice(usable) if (usable and rng.random() < 0.5) else (rng.choice(sorted(lets)) if (lets and rng.random() < 0.5) else "k")
            vv = (ov or {}).get(pname, lets.get(pname))
            if pname in lets and isinstance(vv, int) and not isinstance(vv, bool) and 0 <= vv < src_len and rng.random() < 0.8:
                # the very same statement text, written BEFORE the macro in a macro without parameters: there the name is the
                # constant (a statement built for one binding of a name is not the statement for another)
                macros.append(("macro", "mp%d" % i, ("sequential_block", ("gate", "X", ("array_item", final, pname)))))
                tail += [("gate", "prepare_all"), ("gate", "mp%d" % i), ("gate", "measure_all")]  # after the regular sections: section j <-> element j
            macros.append(("macro", mname, pname, ("sequential_block", ("gate", "X", ("array_item", final, pname)))))
            sec = [("gate", mname, ref[2])]
        elif pos == "macro-nested-index":
            # a macro hands final[k], indexed by its own parameter, on to an inner macro that has a parameter of the same
            # name bound to another value: the k inside the argument is the caller's
            mname = "mn%d" % i
            pname = rng.choice(sorted(lets)) if (lets and rng.random() < 0.6) else "k"
            other = (i + 1) % src_len
            macros.append(("macro", mname + "i", "x", pname, ("sequential_block", ("gate", "X", "x"))))
            macros.append(("macro", mname, pname, ("sequential_block", ("gate", mname + "i", ("array_item", final, pname), other))))
            sec = [("gate", mname, ref[2])]
        elif pos == "single-in-shadowing-macro":
            # a single-qubit alias used inside a macro one of whose parameters carries the name of the register-like
            # thing the alias was taken from: the alias still means what its declaration says
            sname = "t%d" % i
            singles.append(("map", sname, final, ref[2]))
            mname = "mh%d" % i
            macros.append(("macro", mname, final, ("sequential_block", ("gate", "X", sname))))
            sec = [("gate", mname, "q")]
        else:
            sname = "s%d" % i
            singles.append(("map", sname, final, ref[2]))
            sec = [("gate", "X", sname)]
        body += [("gate", "prepare_all")] + sec + [("gate", "measure_all")]
    header = [("let", k, v) for k, v in lets.items()] + [("register", "q", size_expr)] + maps + singles
    return ("circuit",) + tuple(header) + tuple(macros) + tuple(body) + tuple(tail), refs


def expected_indices(prog, ov=None):
    """k for each prepare/measure section, from the model's declarations (under the override dictionary)."""
    ov = ov or {}
    core = M.core_from_sx(prog)
    tree = M.full_meaning(core, env=ov)
    P = refexec.Program(tree, len(M.Evaluator(core, env=ov, resolve=True).elems(core.fundamental()[0], {})))
    scan = P.flat_scan()
    ks = []
    for p, m in scan["subs"]:
        qs = []
        on = False
        for leaf in P.flat():
            if leaf is p:
                on = True
            elif leaf is m:
                on = False
            elif on:
                qs += [a[2] for a in leaf.args if isinstance(a, tuple) and a[0] == "q"]
        ks.append(qs)
    return P.n, ks


def x_statements(c):
    """The X gate statements reachable in textual order from the (macro-expanded) body."""
    from jaqalpaq.core import BlockStatement, LoopStatement, GateStatement

    out = []

    def walk(s):
        if isinstance(s, GateStatement):
            if s.name == "X":
                out.append(s)
        elif isinstance(s, LoopStatement):
            walk(s.statements)
        elif isinstance(s, BlockStatement):
            for x in s.statements:
                walk(x)

    walk(c.body)
    return out


def judge(case):
    prog = case_prog(case)
    ov = dict(case.get("ov") or {})
    try:
        n, ks = expected_indices(prog, ov)
    except (M.MeaningError, refexec.Reject) as ex:
        return "skipped:model-invalid:%s" % ex, [], None
    ks = [q[0] for q in ks]
    o = lib.outcome(lib.parse, sx.to_text(prog), X.native())
    if o[0] != "ok":
        return "ok", [("rejected-valid-program:parse:" + o[1], {"error": o[2], "text": sx.to_text(prog)})], {
            "refs": len(ks), "resolve": 0, "fill": 0, "used": 0, "emu": 0, "gsti": 0}
    c = o[1]
    fails = []
    info = {"refs": len(ks), "resolve": 0, "fill": 0, "used": 0, "emu": 0, "gsti": 0}
    # consumers work on the let-filled, macro-expanded circuit (as the emulator does)
    o = lib.outcome(lambda: lib.expand_macros(lib.fill_in_let(c, ov or None)))
    if o[0] != "ok":
        return "ok", [("rejected-valid-program:expand:" + o[1], {"error": o[2], "ov": ov})], info
    ce = o[1]
    c_run = c
    if ov:
        o = lib.outcome(lib.fill_in_let, c, ov)
        if o[0] != "ok":
            return "ok", [("rejected-valid-program:fill_in_let:" + o[1], {"error": o[2], "ov": ov})], info
        c_run = o[1]
    xs = x_statements(ce)
    if len(xs) != len(ks):
        return "inconclusive:statement-count-mismatch", [], info
    regname = [s[1] for s in prog[1:] if s[0] == "register"][0]
    # (1) resolve_qubit
    for st, k in zip(xs, ks):
        arg = list(st.parameters.values())[0]
        o = lib.outcome(arg.resolve_qubit)
        if o[0] != "ok":
            fails.append(("resolve_qubit-raised:" + o[1], {"error": o[2], "expected": k}))
            break
        info["resolve"] += 1
        reg, idx = o[1]
        if not reg.fundamental or reg.name != regname or idx != k:
            fails.append(("resolve_qubit-wrong", {"expected": (regname, k), "got": (reg.name, idx)}))
            break
    # (1b) the other order: macros expanded while lets are symbolic, then lets (and overrides) filled in
    o = lib.outcome(lambda: lib.fill_in_let(lib.expand_macros(c), ov or None))
    if o[0] != "ok":
        fails.append(("rejected-valid-program:macros-then-lets:" + o[1], {"error": o[2], "ov": ov}))
    else:
        xs2 = x_statements(o[1])
        if len(xs2) == len(ks):
            for st, k in zip(xs2, ks):
                o2 = lib.outcome(list(st.parameters.values())[0].resolve_qubit)
                if o2[0] != "ok" or not o2[1][0].fundamental or o2[1][1] != k:
                    fails.append(("resolve_qubit-wrong:macros-expanded-before-lets", {"expected": k, "got": str(o2[1:3])[:100], "ov": ov}))
                    break
            info["ml"] = len(ks)
    # also on the unexpanded circuit with lets unresolved (resolve_qubit evaluates constants itself)
    # (3) used qubits per statement
    for st, k in zip(xs, ks):
        o = lib.outcome(lib.used_qubits, st)
        if o[0] != "ok":
            fails.append(("used_qubits-raised:" + o[1], {"error": o[2]}))
            break
        info["used"] += 1
        got = {a: set(b) for a, b in dict(o[1]).items() if b}
        if got != {regname: {k}}:
            fails.append(("used_qubits-wrong", {"expected": {regname: [k]}, "got": got}))
            break
    # (2) fill_in_map
    o = lib.outcome(lambda: lib.fill_in_map(lib.fill_in_let(c, ov or None)))
    has_param_index = any(s[0] == "macro" and (s[1].startswith("mi") or s[1].startswith("mn")) for s in prog[1:])
    if o[0] == "jaqal" and has_param_index:
        info["fill_na"] = 1  # fill_in_map documents that it cannot handle parameter-dependent references
        # judge the pass on the same program without the parameter-indexed sections
        p2 = strip_param_index(prog)
        o2 = lib.outcome(lib.parse, sx.to_text(p2), X.native())
        if o2[0] == "ok":
            c2 = o2[1]
            o = lib.outcome(lambda: lib.fill_in_map(lib.fill_in_let(c2, ov or None)))
            if o[0] != "ok":
                fails.append(("fill_in_map-raised:" + o[1], {"error": o[2]}))
            else:
                try:
                    km = M.core_from_ir(o[1])
                    if non_fundamental_refs(km):
                        fails.append(("fill_in_map-left-alias", {"refs": non_fundamental_refs(km)[:3]}))
                    if not M.tree_equal(M.full_meaning(km, env={}), M.full_meaning(M.core_from_ir(c2), env=ov)):
                        fails.append(("fill_in_map-changed-meaning", {}))
                    else:
                        info["fill"] += len([s for s in p2[1:] if s == ("gate", "prepare_all")])
                except (M.OracleError, M.MeaningError) as ex:
                    fails.append(("fill_in_map-malformed-result", {"error": str(ex)[:200]}))
    elif o[0] != "ok":
        fails.append(("fill_in_map-raised:" + o[1], {"error": o[2]}))
    else:
        cm = o[1]
        try:
            km = M.core_from_ir(cm)
            # every reference in the filled circuit (body and macro bodies) is written on the fundamental register
            bad = non_fundamental_refs(km)
            if bad:
                fails.append(("fill_in_map-left-alias", {"refs": bad[:3]}))
            full = M.full_meaning(km, env={})
            exp_full = M.full_meaning(M.core_from_ir(c), env=ov)
            if not M.tree_equal(full, exp_full):
                fails.append(("fill_in_map-changed-meaning", {"diff": M.first_diff(exp_full, full)}))
            else:
                info["fill"] += len(ks)
        except M.OracleError as ex:
            fails.append(("fill_in_map-malformed-result", {"error": str(ex)[:200]}))
        except M.MeaningError as ex:
            fails.append(("fill_in_map-result-unresolvable:" + ex.kind, {"error": str(ex)}))
    # (2b) the parser asked to do both itself (expand_let_map with the override dictionary): the same qubits
    if ov:
        o = lib.outcome(lib.parse, sx.to_text(prog), X.native(), expand_let_map=True, override_dict=dict(ov))
        if o[0] == "ok":
            xs3 = x_statements(lib.expand_macros(o[1])) if not has_param_index else []
            if len(xs3) == len(ks):
                info["pa"] = len(ks)
                for st, k in zip(xs3, ks):
                    o3 = lib.outcome(list(st.parameters.values())[0].resolve_qubit)
                    if o3[0] != "ok" or not o3[1][0].fundamental or o3[1][1] != k:
                        fails.append(("resolve_qubit-wrong:parser-option-expand_let_map-with-overrides", {"expected": k, "got": str(o3[1:3])[:100], "ov": ov}))
                        break
        elif o[0] == "exc":
            fails.append(("parser-option-expand_let_map-raised:" + o[1], {"error": o[2], "ov": ov}))
    # (4) emulator -- one backend object serves every circuit of this process (as a user sweeping programs would)
    np.random.seed(1)
    o = lib.budgeted(lib.run, 50000 + 3000 * len(ks), c_run, backend=shared_backend())
    if o[0] == "budget":
        pass
    elif o[0] != "ok":
        fails.append(("emulator-raised:" + o[1], {"error": o[2]}))
    else:
        res = o[1]
        if len(res.subcircuits) != len(ks):
            fails.append(("emulator-subcircuit-count", {"expected": len(ks), "got": len(res.subcircuits)}))
        else:
            for i, (sc, k) in enumerate(zip(res.subcircuits, ks)):
                p = np.asarray(sc.simulated_probability_by_int)
                info["emu"] += 1
                if len(p) != 2 ** n or abs(p[1 << k] - 1) > 1e-9:
                    fails.append(("emulator-acted-on-wrong-qubit", {"section": i, "expected_int": 1 << k, "argmax": int(np.argmax(p))}))
                    break
    # (6) resolution in a caller-supplied context: the body statement of an index macro, with the parameter bound to
    #     the call's value through `context` (resolve_qubit(context) / get_used_qubit_indices(stmt, context=...)) while the
    #     lets in the alias bounds are still symbolic
    if not ov:
        lets_now = {x[1]: x[2] for x in prog[1:] if x[0] == "let"}
        sections = [x for x in prog[1:] if x[0] not in sx.HEADER and x[0] != "macro"]
        calls = [x for x in sections if x[0] == "gate" and (x[1].startswith("mi") or x[1].startswith("mn"))]
        order = [x for x in sections if x[0] == "gate" and x[1] not in ("prepare_all", "measure_all") or x[0] != "gate"]
        for call in calls:
            sec_no = order.index(call)
            k = ks[sec_no]
            v = call[2]
            v = lets_now.get(v, v) if isinstance(v, str) else v
            m = c.macros.get(call[1])
            if m is None:
                continue
            stm = m.body.statements[0]
            arg = list(stm.parameters.values())[0]
            pname = m.parameters[0].name
            if call[1].startswith("mn"):
                info["ctx_nested"] = info.get("ctx_nested", 0) + 1
            o = lib.outcome(arg.resolve_qubit, {pname: v})
            info["ctx"] = info.get("ctx", 0) + 1
            if o[0] != "ok":
                fails.append(("context-resolution-raised:" + o[1], {"error": o[2], "parameter": pname, "value": v}))
                break
            if not o[1][0].fundamental or o[1][1] != k:
                fails.append(("context-resolution-wrong:resolve_qubit", {"expected": k, "got": (o[1][0].name, o[1][1]), "parameter": pname,
                                                                          "parameter-named-like-a-let": pname in lets_now}))
                break
            # the same statement in the scope of another call site: element v2 of the final alias is section v2's qubit
            v2 = (v + 1) % len(ks)
            if v2 != v:
                o = lib.outcome(arg.resolve_qubit, {pname: v2})
                if o[0] == "ok" and (not o[1][0].fundamental or o[1][1] != ks[v2]):
                    fails.append(("context-resolution-wrong:second-scope", {"expected": ks[v2], "got": (o[1][0].name, o[1][1]),
                                                                             "first_scope_value": v, "second_scope_value": v2}))
                    break
                o = lib.outcome(lib.used_qubits, stm, {pname: v2})
                if o[0] == "ok" and {a: set(b) for a, b in dict(o[1]).items() if b} != {regname: {ks[v2]}}:
                    fails.append(("context-resolution-wrong:second-scope:used_qubits", {"expected": ks[v2], "first_scope_value": v,
                                                                                        "second_scope_value": v2}))
                    break
            o = lib.outcome(lib.used_qubits, stm, {pname: v})
            if o[0] != "ok":
                fails.append(("context-resolution-raised:" + o[1], {"error": o[2], "parameter": pname, "value": v}))
                break
            got = {a: set(b) for a, b in dict(o[1]).items() if b}
            if got != {regname: {k}}:
                fails.append(("context-resolution-wrong:used_qubits", {"expected": {regname: [k]}, "got": got, "parameter": pname,
                                                                        "parameter-named-like-a-let": pname in lets_now}))
                break
    # (7) a whole register or alias handed to a gate (a register-typed parameter): the analysis must name exactly the qubits
    #     that indexing it element by element reaches
    try:
        from jaqalpaq.core import GateDefinition, Parameter, ParamType

        core_m = M.core_from_sx(prog)
        ev = M.Evaluator(core_m, env=ov, resolve=True)
        wdef = GateDefinition("Wreg", [Parameter("r", ParamType.REGISTER)])
        for circ, tag in ((ce, "lets-filled"), (c, "lets-symbolic")):
            if tag == "lets-symbolic" and ov:
                continue
            for rname, robj in circ.registers.items():
                if not hasattr(robj, "resolve_size") or rname not in core_m.regs or core_m.regs[rname][0] != "R":
                    continue
                want = [e[2] for e in ev.elems(core_m.regs[rname], {})]
                o = lib.outcome(lambda: [robj.resolve_qubit(i)[1] for i in range(int(robj.resolve_size()))])
                if o[0] != "ok" or o[1] != want:
                    fails.append(("whole-register-elements-wrong:%s" % tag, {"register": rname, "expected": want, "got": str(o[1:3])[:120]}))
                    break
                o = lib.outcome(lib.used_qubits, wdef(robj))
                got = {a: set(b) for a, b in dict(o[1]).items() if b} if o[0] == "ok" else str(o[1:3])[:120]
                info["whole"] = info.get("whole", 0) + 1
                if got != {regname: set(want)}:
                    fails.append(("used_qubits-wrong:whole-register-argument:%s" % tag, {"register": rname, "expected": sorted(want), "got": str(got)[:160]}))
                    break
        # ... and alias fill-in of such statements: refused (the pass documents that it cannot write a whole alias in terms
        # of the register) or rewritten to something that denotes the same qubits
        from jaqalpaq.core import Circuit

        c2 = Circuit(native_gates={"Wreg": wdef})
        c2.constants.update(ce.constants)
        c2.registers.update(ce.registers)
        wanted = []
        for rname, robj in ce.registers.items():
            if hasattr(robj, "resolve_size") and rname in core_m.regs and core_m.regs[rname][0] == "R":
                c2.body.statements.append(wdef(robj))
                wanted.append((rname, {e[2] for e in ev.elems(core_m.regs[rname], {})}))
        for k_, (rname, want) in enumerate(wanted):
            c3 = Circuit(native_gates={"Wreg": wdef})
            c3.constants.update(ce.constants)
            c3.registers.update(ce.registers)
            c3.body.statements.append(c2.body.statements[k_])
            o = lib.outcome(lib.fill_in_map, c3)
            info["whole_fill"] = info.get("whole_fill", 0) + 1
            if o[0] == "jaqal":
                continue
            if o[0] != "ok":
                fails.append(("fill_in_map-raised:whole-register-argument:" + o[1], {"register": rname, "error": o[2]}))
                break
            og = lib.outcome(lib.used_qubits, o[1])
            got = {i for _k, v in dict(og[1]).items() for i in v} if og[0] == "ok" else str(og[1:3])[:120]
            if got != want:
                fails.append(("fill_in_map-changed-meaning:whole-register-argument", {"register": rname, "expected": sorted(want), "got": str(got)[:120]}))
                break
    except M.MeaningError:
        pass
    # (5) pyGSTi label
    lab = pygsti_label()
    if callable(lab):
        for st, k in zip(xs, ks):
            o = lib.outcome(lab, st)
            if o[0] != "ok":
                fails.append(("pygsti-label-raised:" + o[1], {"error": o[2]}))
                break
            info["gsti"] += 1
            lines = tuple(o[1].sslbls or ())
            if lines != (k,):
                fails.append(("pygsti-label-wrong-line", {"expected": k, "got": lines, "label": str(o[1])}))
                break
    else:
        info["gsti_unavailable"] = str(lab)[:100]
    return "ok", fails, info


def judge_invalid(case):
    """A reference that denotes NO element (index below zero or beyond the alias, known only through a let):
    the consumers agree only if every one of them refuses it -- none may resolve it to some qubit."""
    n, start, stop, step, idx = case["n"], case["start"], case["stop"], case["step"], case["idx"]
    via = case.get("via", "alias")
    L = len(range(start, stop, step))
    if via == "chain":
        # b = a[0:E] with a let-valued E that reaches beyond a (no check is possible when the map is declared); idx lies
        # within b's nominal extent and within the fundamental register, but a has no such element
        E = case["outer_stop"]
        assert L <= idx < E
        hdr = "let i %d\nlet E %d\nregister q[%d]\nmap a q[%d:%d:%d]\nmap b a[0:E]\n" % (idx, E, n, start, stop, step)
        ref = "b[i]"
    else:
        assert not (0 <= idx < (L if via == "alias" else n))
        hdr = "let i %d\nregister q[%d]\n" % (idx, n)
        if via == "alias":
            hdr += "map a q[%d:%d:%d]\n" % (start, stop, step)
        ref = "a[i]" if via == "alias" else "q[i]"
    text = hdr + "prepare_all\nX %s\nmeasure_all\n" % ref
    o = lib.outcome(lib.parse, text, X.native())
    info = {"consumers": 0}
    if o[0] != "ok":
        return ("ok" if o[0] == "jaqal" else "ok"), ([] if o[0] == "jaqal" else [("invalid-reference:parse-crashed:" + o[1], {"error": o[2], "text": text})]), info
    c = o[1]
    st = x_statements(c)[0]
    arg = list(st.parameters.values())[0]
    fails = []
    for name, fn in (("resolve_qubit", arg.resolve_qubit), ("used_qubits:statement", lambda: lib.used_qubits(st)),
                     ("used_qubits:circuit", lambda: lib.used_qubits(c)),
                     ("fill_in_map", lambda: lib.fill_in_map(lib.fill_in_let(c))),
                     ("emulator", lambda: lib.budgeted(lib.run, 100000, c))):
        o = fn() if name == "emulator" else lib.outcome(fn)  # budgeted() returns an outcome tuple itself
        if o[0] == "budget":
            continue
        info["consumers"] += 1
        if o[0] == "exc":
            fails.append(("invalid-reference:%s-crashed:%s" % (name, o[1]), {"error": o[2], "text": text}))
        elif o[0] == "ok":
            got = o[1]
            if name.startswith("used"):
                got = {k: sorted(v) for k, v in dict(got).items()}
            elif name == "resolve_qubit":
                got = (got[0].name, got[1])
            else:
                got = "accepted"
            fails.append(("invalid-reference:%s-resolved-it" % name, {"got": got, "text": text}))
    return "ok", fails, info


def invalid_cases(rng):
    n = rng.randint(2, 6)
    if rng.random() < 0.3:
        return {"kind": "invalid", "via": "register", "n": n, "start": 0, "stop": n, "step": 1, "idx": rng.choice([-1, -2, n, n + 1])}
    if rng.random() < 0.25 and n >= 4:
        start = rng.randint(0, n - 3)
        stop = rng.randint(start + 1, n - 2)
        L = stop - start
        E = rng.randint(L + 1, n - start)
        return {"kind": "invalid", "via": "chain", "n": n, "start": start, "stop": stop, "step": 1, "outer_stop": E, "idx": rng.randint(L, E - 1)}
    step = rng.choice([1, 1, 2, -1, -2])
    if step > 0:
        start = rng.randint(0, n - 1)
        stop = rng.randint(start + 1, n)
    else:
        start = rng.randint(0, n - 1)
        stop = rng.randint(-1, start - 1)
    L = len(range(start, stop, step))
    return {"kind": "invalid", "via": "alias", "n": n, "start": start, "stop": stop, "step": step, "idx": rng.choice([-1, -2, -L, L, L + 1])}


def strip_param_index(prog):
    hdr = [s for s in prog[1:] if s[0] in sx.HEADER]
    macros = [s for s in prog[1:] if s[0] == "macro" and not s[1].startswith(("mi", "mn"))]
    body = [s for s in prog[1:] if s[0] not in sx.HEADER and s[0] != "macro"]
    out = []
    for i in range(0, len(body), 3):
        sec = body[i:i + 3]
        if len(sec) == 3 and sec[1][0] == "gate" and sec[1][1].startswith(("mi", "mn")):
            continue
        out.extend(sec)
    return ("circuit",) + tuple(hdr) + tuple(macros) + tuple(out)


def non_fundamental_refs(core):
    bad = []

    def scan(t):
        if isinstance(t, tuple):
            if t and t[0] == "item":
                base = t[1]
                if base[0] == "R" and base[2][0] != "fund":
                    bad.append(base[1])
                return
            if t and t[0] == "A1":
                bad.append(t[1])
                return
            if t and t[0] == "R":
                return
            for x in t:
                scan(x)

    scan(core.body)
    for _p, b in core.macros.values():
        scan(b)
    return bad


def process(ctx, case, feats):
    rec = ctx.rec
    st, fails, info = judge(case)
    rec.case([case["n"], case["chain"], case["style"]], nontrivial=feats["strided"])
    if st != "ok":
        rec.count(":".join(st.split(":")[:2]))
        if st.startswith("inconclusive"):
            rec.inconc(st)
        return
    rec.count("judged")
    rec.count("references-checked", info["refs"])
    rec.count("consumer:resolve_qubit", info["resolve"])
    rec.count("consumer:fill_in_map", info["fill"])
    rec.count("consumer:fill_in_map-not-applicable", info.get("fill_na", 0))
    rec.count("consumer:used_qubits", info["used"])
    rec.count("consumer:emulator", info["emu"])
    rec.count("consumer:pygsti", info["gsti"])
    rec.count("consumer:resolution-in-context", info.get("ctx", 0))
    rec.count("consumer:resolution-in-context:argument-handed-to-an-inner-macro", info.get("ctx_nested", 0))
    rec.count("consumer:whole-register-argument", info.get("whole", 0))
    rec.count("consumer:fill_in_map-of-whole-register-argument", info.get("whole_fill", 0))
    rec.count("consumer:resolve_qubit:macros-expanded-before-lets", info.get("ml", 0))
    rec.count("consumer:resolve_qubit:parser-option-expand_let_map-with-overrides", info.get("pa", 0))
    if "gsti_unavailable" in info:
        rec.note("pygsti_unavailable", info["gsti_unavailable"])
    rec.count("style:" + case["style"])
    if len(case["chain"]) >= 2:
        rec.count("depth>=2")
    if feats.get("counting-down"):
        rec.count("chain-with-slice-counting-down")
    rec.count("depth=%d" % len(case["chain"]))
    rec.count("same-statement-text-before-a-macro-whose-parameter-has-the-index-name",
              sum(1 for s_ in case_prog(case)[1:] if s_[0] == "macro" and s_[1].startswith("mp")))
    for pos in feats["positions"]:
        rec.count("position:" + pos)
    for clause, detail in fails:
        f = []
        if any(s[0] == "slice" and (s[1] != 0 or s[3] != 1) for s in case["chain"]):
            f.append("offset-or-stride")
        if any(s[0] == "slice" and s[3] < 0 for s in case["chain"]):
            f.append("counting-down")
        if len(case["chain"]) > 1:
            f.append("alias-of-alias")
        if case["style"] != "lit":
            f.append(case["style"])
        rec.violation(sig("C06", clause, f), detail, case)


def run_case(ctx, n, chain, style, seed):
    import random

    rng = random.Random(seed)
    ov = {}
    prog, refs = build_program(n, chain, style, rng, offset=seed, ov=ov)
    case = {"prog": prog, "n": n, "chain": [list(c) for c in chain], "style": style, "ov": ov}
    feats = {"strided": any(s[0] == "slice" and (s[1] != 0 or s[3] != 1) for s in chain),
             "counting-down": any(s[0] == "slice" and s[3] < 0 for s in chain),
             "positions": sorted({p for p, i, r in refs})}
    process(ctx, case, feats)
    return prog


def chains(n, depth):
    """Every chain of `depth` declarations over a register of size n."""
    def rec(src_len, d):
        if d == 0:
            yield ()
            return
        for spec in level_specs(src_len):
            for rest in rec(spec_len(spec, src_len), d - 1):
                yield (spec,) + rest
    yield from rec(n, depth)


def shard(ctx):
    rec = ctx.rec
    monitors.install_contracts()
    rng = ctx.rng
    sizes = [1, 2, 3, 4, 5] if ctx.quick else [1, 2, 3, 4, 5, 6]
    j = 0
    complete = True
    plan = []
    for n in sizes:
        for depth in ((1, 2) if (ctx.quick or n > 4) else (1, 2, 3)):
            if ctx.quick and n == 5 and depth == 2:
                continue  # 1629 chains: left to the random part and to the thorough tier
            plan.append((n, depth))
    for n, depth in plan:
        for chain in chains(n, depth):
            j += 1
            if not ctx.mine(j):
                continue
            if rec.time_left() < (rec.deadline - rec.t0) * 0.2:
                complete = False
                break
            for si, style in enumerate(("lit", "default", "let", "override")):
                prog = run_case(ctx, n, chain, style, j + si)
                if rec.evaluations <= 3:
                    rec.sample({"n": n, "chain": chain, "style": style, "text": sx.to_text(prog)})
    rec.exhaustive = complete
    rec.note("exhaustive_space", {"(size, depth)": plan, "complete": complete,
                                  "styles": "every chain is run with literal, defaulted, let-valued and overridden-let bounds"})
    # random deeper chains
    i = 0
    while i < ctx.scale(300, 20000) and not rec.expired():
        i += 1
        n = rng.randint(2, 7)
        depth = rng.randint(3, 6)
        chain = []
        cur = n
        for _ in range(depth):
            spec = rng.choice(level_specs(cur))
            chain.append(spec)
            cur = spec_len(spec, cur)
        run_case(ctx, n, tuple(chain), rng.choice(["lit", "default", "let", "override"]), rng.randrange(1 << 30))
    # references that denote no element: every consumer must refuse them
    for _ in range(ctx.scale(400, 5000)):
        case = invalid_cases(rng)
        st, fails, info = judge_invalid(case)
        rec.case(["invalid", sorted(case.items())], nontrivial=True)
        rec.count("invalid-reference:consumers-observed", info["consumers"])
        for clause, detail in fails:
            f = ["negative-index" if case["idx"] < 0 else "index-beyond", "through-" + case["via"]]
            if case["step"] < 0:
                f.append("counting-down")
            rec.violation(sig("C06", clause, f), detail, case)
    monitors.report_contracts(rec)


def replay(ctx, case):
    if case.get("kind") == "invalid":
        st, fails, info = judge_invalid(case)
        for clause, detail in fails:
            ctx.rec.violation(sig("C06", clause), detail, case)
        return
    prog = case_prog(case)
    st, fails, info = judge(dict(case, prog=prog))
    for clause, detail in fails:
        ctx.rec.violation(sig("C06", clause), detail, case)
