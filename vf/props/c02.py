"""C02 -- the parser accepts exactly the Jaqal grammar and is insensitive to layout."""
import os
import random
import re

from .. import sx, gen, lib, refparse, monitors
from .common import sig, case_prog

RULE = ("(a) every generated derivation (full header/body model) rendered with >= 4 random layouts: separator choice (; | "
        "newline, repeated), padding, spaces/tabs, // comments before newlines, several /* */ comments per file incl. "
        "multi-line ones and ones containing code-like text; the library's S-expression must equal the derivation's and all "
        "layouts must build equal circuits; (b) near-misses: one token deleted / duplicated / swapped with its neighbour / "
        "replaced from the Jaqal token alphabet, truncation at every token boundary, a header statement moved after a body "
        "statement -- judged against an independent predictive parser (vf/refparse.py) for accept/reject, tree, and error "
        "position (a token at or after the first offending one, or end of input). non-trivial = program has >= 3 statements; "
        "distinct = text")
ASSUMPTIONS = ["reference grammar and lexer in vf/refparse.py (cross-checked on every positive: must accept with the model's tree)",
               "semantic rejections raised inside the parser (literal register size <= 0) and unlisted constructs (branch/case, "
               "'0101' literals, import..as) are outside the grammar clause and not judged"]
TIERS = {"quick": {"shards": 8, "budget_s": 180}, "thorough": {"shards": 16, "budget_s": 480}}
REQUIRE = {"entry-points-compared": 2000, "illegal-character-texts-judged": 1500, "mutation:lookalike-digit": 200, "mutation:same-kind-nesting": 300, "mutation:refused-literal": 30, "mutation:exotic-character": 500,
           "shards-reducing-every-production-of-the-listed-grammar": 1, "layouts-checked": 2000, "header-only-parses-compared": 2000, "near-misses-with-multiline-block-comment": 3000, "near-misses-judged": 5000, "both-reject:position-checked": 2000,
           "layout:multiple-block-comments": 100, "layout:multiline-block-comment": 50, "layout:line-comment": 200,
           "mutation:truncate": 500, "mutation:header-after-body": 100, "both-accept:tree-compared": 300}

ALPHABET = ["register", "map", "let", "macro", "loop", "from", "usepulses", "subcircuit", "{", "}", "<", ">", "|", ";", "[", "]",
            ":", "*", ",", "\n", "q", "foo", "a", "x.y", "g", "0", "3", "-1", "+2", "1.5", "-0.25", "2.0e-3", ".m", "prepare_all",
            "as", "as", "1.0e999", "-2.5e400"]


def lib_sexpr(text):
    """('ok', tree) | ('parse-error', line, col, msg) | ('exc', type, msg)."""
    from jaqalpaq.parser.slyparse import JaqalParseError

    try:
        return ("ok", sx.norm(lib.parse_sexpr(text)))
    except JaqalParseError as ex:
        return ("parse-error", ex.line, ex.column, str(ex))
    except Exception as ex:
        return ("exc", type(ex).__name__, str(ex)[:200])


def position_ok(toks, first_bad, line, col, text):
    """Is (line, col) the position of a token with index >= first_bad, or the end of input?"""
    if line == "EOF":
        return True, "eof-marker"
    if not isinstance(line, int) or not isinstance(col, int):
        return False, "non-integer position"
    for k in range(first_bad, len(toks)):
        t = toks[k]
        if t.line == line and t.col == col:
            return True, "token+%d" % min(k - first_bad, 3)
    last_line = toks[-1].line + (toks[-1].text.count("\n") if toks else 0) if toks else 1
    if first_bad >= len(toks) and line >= (toks[-1].line if toks else 1):
        return True, "end-of-input"
    return False, "not a token position at/after the first offending token"


def judge_text(text, expect_tree=None):
    """Compare library and reference on one text.  Returns (status, fails, info)."""
    ref = refparse.parse(text)
    got = lib_sexpr(text)
    info = {"ref": ref[0], "lib": got[0]}
    fails = []
    if ref[0] == "lex":
        # a character that starts no token (or a never-closed block comment): not derivable, so the text must be
        # refused, at that character or at a token before it (the parser may stop earlier)
        lf = ref[1]
        info["cmp"] = "illegal-character"
        if got[0] == "ok":
            fails.append(("accepts-text-with-illegal-character", {"character": repr(text[lf.pos]), "at": (lf.line, lf.col), "why": lf.why,
                                                                  "text": text, "tree": got[1]}))
        elif got[0] == "exc":
            fails.append(("rejected-with-wrong-exception:%s:illegal-character" % got[1], {"error": got[2], "text": text}))
        elif not (isinstance(got[1], int) and isinstance(got[2], int) and (got[1], got[2]) <= (lf.line, lf.col)):
            fails.append(("error-position:after-illegal-character", {"reported": (got[1], got[2]), "illegal_character_at": (lf.line, lf.col),
                                                                       "message": got[3], "text": text}))
        return "ok", fails, info
    toks = ref[2]
    # constructs outside the listed grammar are not judged -- when they are USED as such: a binary literal, a branch
    # statement, an import statement.  A reserved word in the place of an identifier (`let as 1`) is an ordinary near miss.
    if any(t.kind in ("BININT", "BRANCH", "IMPORT") for t in toks):
        return "skipped:unlisted-construct", fails, info
    if ref[0] == "ok":
        if expect_tree is not None and not sx.sx_equal_strict(ref[1], expect_tree):
            return "inconclusive:reference-parser-disagrees-with-model", fails, info
        if got[0] == "ok":
            info["cmp"] = "both-accept"
            want = expect_tree if expect_tree is not None else ref[1]
            if not sx.sx_equal_strict(got[1], want):
                fails.append(("tree-differs", {"expected": want, "got": got[1], "text": text}))
        elif got[0] == "parse-error":
            fails.append(("rejects-derivable-text", {"error": got[3], "text": text}))
        else:
            fails.append(("rejects-derivable-text:" + got[1], {"error": got[2], "text": text}))
        return "ok", fails, info
    rej = ref[1]
    if rej.semantic:
        return "skipped:semantic-rule-in-parser", fails, info
    if got[0] == "ok":
        fails.append(("accepts-underivable-text", {"first_offending_token": rej.index, "why": rej.why, "text": text,
                                                   "tree": got[1]}))
        return "ok", fails, info
    info["cmp"] = "both-reject"
    if got[0] == "exc":
        eof = rej.index >= len(toks)
        fails.append(("rejected-with-wrong-exception:%s:%s" % (got[1], "at-end-of-input" if eof else "mid-text"),
                      {"error": got[2], "text": text}))
        return "ok", fails, info
    ok, how = position_ok(toks, rej.index, got[1], got[2], text)
    info["pos"] = how
    if not ok:
        bad = toks[rej.index] if rej.index < len(toks) else None
        where = "first-token-of-text" if (bad is not None and bad.pos == 0) else "elsewhere"
        fails.append(("error-position:" + where, {"reported": (got[1], got[2]), "first_offending": repr(bad), "why": how,
                                                  "message": got[3], "text": text}))
    return "ok", fails, info


# ---------------------------------------------------------------------------------------
def layout_features(text):
    f = []
    nblock = text.count("/*")
    if nblock >= 2:
        f.append("multiple-block-comments")
    if nblock >= 1:
        f.append("block-comment")
        import re

        if re.search(r"/\*[^*]*\n", text):
            f.append("multiline-block-comment")
    if "//" in text:
        f.append("line-comment")
    if ";" in text:
        f.append("semicolon")
    if "|" in text:
        f.append("bar")
    return f


def positives(ctx, prog, nlay):
    rec = ctx.rec
    canon = sx.to_text(prog)
    oc = lib.outcome(lib.parse, canon)
    circuits = []
    for k in range(nlay):
        lay = random.Random(ctx.rng.randrange(1 << 30))
        comments = k != 0
        text = sx.to_text(prog, lay, comments=comments)
        st, fails, info = judge_text(text, expect_tree=prog)
        rec.case(text, nontrivial=len(prog) > 3)
        rec.count("layouts-checked")
        feats = layout_features(text)
        for f in feats:
            rec.count("layout:" + f)
        if st != "ok":
            rec.count(st)
            if st.startswith("inconclusive"):
                rec.inconc(st + " :: " + text[:200])
            continue
        if info.get("cmp") == "both-accept":
            rec.count("both-accept:tree-compared")
        if k % 2 == 1:
            entry_points_agree(ctx, text)
        elif not fails and info.get("cmp") == "both-accept":
            header_only_agrees(ctx, text, prog)
        for clause, detail in fails:
            mech = [f for f in feats if f in ("multiple-block-comments", "multiline-block-comment", "line-comment")]
            small = shrink_text(text, clause, prog)
            cf = ("multiple-block-comments", "multiline-block-comment", "line-comment", "block-comment")
            rec.violation(sig("C02", "layout:" + clause, [f for f in layout_features(small["text"]) if f in cf] if small else mech),
                          small or detail, {"kind": "layout", "prog": prog, "text": text})
        if not fails and oc[0] == "ok":
            o = lib.outcome(lib.parse, text)
            if o[0] != "ok":
                rec.violation(sig("C02", "layout:circuit-rejected", feats), {"error": o[2], "text": text},
                              {"kind": "layout", "prog": prog, "text": text})
            else:
                try:
                    same = (o[1] == oc[1]) and (oc[1] == o[1])
                except Exception:
                    same = False
                rec.count("layout:circuits-compared")
                if not same:
                    rec.violation(sig("C02", "layout:circuit-differs", feats), {"text": text, "canonical": canon},
                                  {"kind": "layout", "prog": prog, "text": text})


def header_only_agrees(ctx, text, prog):
    """The header-only entry points see the header the full parse sees: parse_to_sexpression(header_only=True) gives the
    header statements of the full tree (also with return_usepulses=True), and the circuit of parse_jaqal_string_header
    has the declarations of the full circuit."""
    rec = ctx.rec
    pm = lib._m("jaqalpaq.parser.parser")
    want = tuple([prog[0]] + [x for x in prog[1:] if x[0] in sx.HEADER])
    for opt in (False, True):
        o = lib.outcome(lambda: pm.parse_to_sexpression(text, header_only=True, return_usepulses=opt))
        rec.count("header-only-parses-compared")
        got = None
        if o[0] == "ok":
            got = sx.norm(o[1][0] if opt else o[1])
        if got is None or not sx.sx_equal_strict(got, want):
            rec.violation(sig("C02", "header-only-parse-differs-from-the-header-of-the-full-parse" + (":return_usepulses" if opt else "")),
                          {"text": text, "expected": want, "got": got if got is not None else str(o[:3])[:200]}, {"kind": "header", "prog": prog, "text": text})
            return
    a, b = lib.outcome(lib.parse, text), lib.outcome(lib.parse_header, text)
    if a[0] == "ok":
        ok = b[0] == "ok"
        if ok:
            try:
                ok = (list(a[1].constants) == list(b[1].constants) and list(a[1].registers) == list(b[1].registers)
                      and all(a[1].constants[k] == b[1].constants[k] for k in a[1].constants)
                      and all(a[1].registers[k] == b[1].registers[k] for k in a[1].registers)
                      and [str(u.module) for u in a[1].usepulses] == [str(u.module) for u in b[1].usepulses]
                      and not b[1].body.statements and not b[1].macros)
            except Exception:
                ok = False
        if not ok:
            rec.violation(sig("C02", "header-circuit-differs-from-the-declarations-of-the-full-circuit"), {"text": text, "header": str(b[:3])[:300]},
                          {"kind": "header", "prog": prog, "text": text})


def shrink_text(text, clause, prog):
    """Find a shorter layout of the same derivation that still fails the same clause:
    try removing whole comments one at a time."""
    import re

    cur = text
    changed = True
    tries = 0
    while changed and tries < 60:
        changed = False
        for m in list(re.finditer(r"/\*.*?\*/|//[^\n]*", cur, re.S)):
            tries += 1
            cand = cur[:m.start()] + " " + cur[m.end():]
            st, fails, info = judge_text(cand, expect_tree=prog)
            if st == "ok" and any(f[0] == clause for f in fails):
                cur = cand
                changed = True
                break
    st, fails, info = judge_text(cur, expect_tree=prog)
    d = [f[1] for f in fails if f[0] == clause]
    if d:
        d[0]["text"] = cur
        return d[0]
    return None


NEAR_MISS_COMMENTS = ["/* c */", "/* two\n   lines */", "/*\n\n\n*/", "/* a\n b */ /* c\n d\n e */", "// x\n/* y\n// z\n*/", "// plain\n",
                      "/**/", "/* loop 2 { */", "/*\n*/\n"]


def render_tokens(toks, lay=None):
    """Tokens separated by single spaces; with `lay` (a random.Random) comments -- also ones that run over several
    lines -- are put between some of them.  (A line comment brings a newline with it; the text is judged as it is.)"""
    out = []
    for t in toks:
        out.append("\n" if t == "\n" else t)
        if lay is not None and lay.random() < 0.12:
            out.append(lay.choice(NEAR_MISS_COMMENTS))
    if lay is not None and lay.random() < 0.3:
        out.insert(0, lay.choice(NEAR_MISS_COMMENTS))
    s = ""
    for t in out:
        if t == "\n":
            s += "\n"
        else:
            s += (" " if s and not s.endswith("\n") else "") + t
    return s


# characters outside the language that careless character classes / line splitting let through
EXOTIC_SPACE = ["\u00a0", "\u2003", "\u3000", "\x0b", "\x0c", "\r", "\x1c", "\x1d", "\x1e", "\x85", "\u2028", "\u2029", "\ufeff"]
EXOTIC_DIGIT = ["\u0660", "\u0663", "\uff12", "\u0967", "\u00b2", "\u2460", "\u0be7"]
EXOTIC_LETTER = ["\u00e9", "\u0430", "\uff21", "\u03b1", "\u00aa", "\u2168"]
EXOTIC_OTHER = ["$", "@", "#", "%", "&", "!", "?", "=", "(", ")", "\\", "^", "~", "`", "\"", "\x00", "\x7f"]


def exotic_mutant(rng, toks):
    """Swap one character of one token for a look-alike of the same Unicode category, or put a character that
    is no Jaqal white space between two tokens."""
    t = list(toks)
    i = rng.randrange(len(t))
    r = rng.random()
    if r < 0.45 and t[i] != "\n":
        w = t[i]
        pos = [k for k, ch in enumerate(w) if ch.isdigit() or ch.isalpha()]
        if pos:
            k = rng.choice(pos)
            sub = rng.choice(EXOTIC_DIGIT if w[k].isdigit() else EXOTIC_LETTER)
            t[i] = w[:k] + sub + w[k + 1:]
            return "lookalike-" + ("digit" if w[k].isdigit() else "letter"), t
    ch = rng.choice(EXOTIC_SPACE if r < 0.8 else EXOTIC_OTHER)
    if rng.random() < 0.5 and t[i] != "\n":
        t[i] = t[i] + ch if rng.random() < 0.5 else ch + t[i]
    else:
        t.insert(i, ch)
    return "exotic-character", t


def mutants(rng, toks, prog, n):
    """n single-token mutants of a token list (strings)."""
    L = len(toks)
    out = []
    for _ in range(n):
        if L == 0:
            break
        if rng.random() < 0.25:
            out.append(exotic_mutant(rng, toks))
            continue
        kind = rng.choice(["delete", "duplicate", "swap", "replace", "replace", "truncate", "insert"])
        i = rng.randrange(L)
        t = list(toks)
        if kind == "delete":
            del t[i]
        elif kind == "duplicate":
            t.insert(i, t[i])
        elif kind == "swap":
            if L < 2:
                continue
            i = rng.randrange(L - 1)
            t[i], t[i + 1] = t[i + 1], t[i]
        elif kind == "replace":
            t[i] = rng.choice(ALPHABET)
        elif kind == "insert":
            t.insert(i, rng.choice(ALPHABET))
        else:
            t = t[:i]
        out.append((kind, t))
    return out


def header_after_body(rng, prog):
    hdr = [s for s in prog[1:] if s[0] in sx.HEADER]
    body = [s for s in prog[1:] if s[0] not in sx.HEADER]
    if not hdr or not body:
        return None
    h = rng.choice(hdr)
    rest = [s for s in prog[1:] if s is not h]
    # insert after at least one body statement
    first_body = next(i for i, s in enumerate(rest) if s[0] not in sx.HEADER)
    pos = rng.randint(first_body + 1, len(rest))
    rest.insert(pos, h)
    return ("circuit",) + tuple(rest)


def entry_points_agree(ctx, text):
    """parse_jaqal_file / parse_jaqal_file_header on a file holding `text` must behave like the string entry
    points on `text` (same circuit, or the same error at the same position).  ASCII texts only: how a file with
    other bytes is decoded depends on the locale, which is not the library's business."""
    rec = ctx.rec
    if not text.isascii() or "\r" in text:
        return
    import tempfile

    d = tempfile.mkdtemp(prefix="vf-c02-")
    path = os.path.join(d, "prog.jaqal")
    try:
        with open(path, "w", newline="") as fd:
            fd.write(text)
        for tag, fs, ff in (("full", lambda: lib.parse(text), lambda: lib.parse_file(path)),
                            ("header", lambda: lib.parse_header(text), lambda: lib.parse_file_header(path))):
            a, b = lib.outcome(fs), lib.outcome(ff)
            rec.count("entry-points-compared")
            same = a[0] == b[0]
            detail = {}
            if same and a[0] == "ok":
                ta, tb = lib.outcome(lib.generate, a[1]), lib.outcome(lib.generate, b[1])
                try:
                    same = (a[1] == b[1]) and ta[:2] == tb[:2]
                except Exception:
                    same = False
                detail = {"string": ta[1] if ta[0] == "ok" else ta[:3], "file": tb[1] if tb[0] == "ok" else tb[:3]}
            elif same:
                # same class of error; the position (line:col) must agree, the file name in the message may differ
                pa, pb = re.search(r":(\d+):(\d+): ", a[2] or ""), re.search(r":(\d+):(\d+): ", b[2] or "")
                same = a[1] == b[1] and (pa.groups() if pa else None) == (pb.groups() if pb else None)
                detail = {"string": a[2], "file": b[2]}
            else:
                detail = {"string": str(a[:3])[:300], "file": str(b[:3])[:300]}
            if not same:
                feats = [n for n, ch in (("form-feed", "\x0c"), ("vertical-tab", "\x0b"), ("fs-gs-rs", "\x1c"), ("fs-gs-rs", "\x1d"),
                                         ("fs-gs-rs", "\x1e")) if ch in text]
                rec.violation(sig("C02", "file-and-string-entry-points-differ:" + tag, sorted(set(feats))), dict(detail, text=text),
                              {"kind": "entry", "text": text})
    finally:
        try:
            os.remove(path)
        except OSError:
            pass
        os.rmdir(d)


def same_kind_nesting(rng, prog):
    """A block written directly inside a block of its own kind (the grammar makes sequential and parallel blocks
    alternate): one child of some block is wrapped in another block of the same kind."""
    blocks = [b for b in sx.walk(prog) if b is not prog and b[0] in ("sequential_block", "parallel_block") and len(b) > 1]
    if not blocks:
        return None
    target = rng.choice(blocks)
    i = rng.randrange(1, len(target))
    new = target[:i] + ((target[0], target[i]),) + target[i + 1:]
    done = [False]

    def rw(s):
        if not isinstance(s, tuple):
            return s
        if s is target and not done[0]:
            done[0] = True
            return new
        return tuple(rw(x) for x in s)

    return rw(prog)


def error_is_in_the_header(text):
    """True iff the reference parser's first offending token comes before the first statement that does not begin with a
    header keyword (statements = runs of tokens between newlines / semicolons at nesting depth 0)."""
    ref = refparse.parse(text)
    if ref[0] != "reject":
        return False
    rej, toks = ref[1], ref[2]
    if getattr(rej, "semantic", False) or rej.index >= len(toks):
        return False  # a cut-off header: the header-only parse may stop before the end of input
    start = True
    for k, t in enumerate(toks):
        if k >= rej.index:
            return True
        if t.kind == "NL" or t.text == ";":
            start = True
            continue
        if start and t.text not in ("let", "register", "map", "from"):
            return False
        start = False
    return True


def near_misses(ctx, prog, n):
    rec = ctx.rec
    rng = ctx.rng
    canon = sx.to_text(prog)
    try:
        toks = [t.text if t.kind != "NL" else "\n" for t in refparse.lex(canon)]
    except refparse.LexFailure:
        rec.inconc("canonical text not lexable")
        return
    cases = mutants(rng, toks, prog, n)
    if rng.random() < 0.3:
        # truncation at *every* token boundary of this program
        cases += [("truncate", toks[:i]) for i in range(len(toks))]
    hb = header_after_body(rng, prog)
    if hb is not None:
        cases.append(("header-after-body", None))
    nested = same_kind_nesting(rng, prog)
    if nested is not None:
        cases.append(("same-kind-nesting", None))
    if rng.random() < 0.02:
        # literals the lexer refuses as a whole (too long for an integer, out of range for a float): the error is AT the literal,
        # whatever follows it on the line
        lit = rng.choice(["9" * 4400, "-" + "1" * 5000, "1.0e999", "-.5e400"])
        tail = rng.choice([" ", " // c", " /* c */ ", "\n", "]", " ; g"])
        cases.append(("refused-literal", ["register", "q", "[", "2", "]", "\n", "g", lit + tail]))
    for kind, t in cases:
        lay = random.Random(rng.randrange(1 << 30)) if rng.random() < 0.4 else None
        if kind == "header-after-body":
            text = sx.to_text(hb, lay, comments=True) if lay else sx.to_text(hb)
        elif kind == "same-kind-nesting":
            text = sx.to_text(nested, lay, comments=True) if lay else sx.to_text(nested)
        else:
            text = render_tokens(t, lay)
        if lay is not None:
            rec.count("near-misses-with-comments")
            if re.search(r"/\*[^*]*\n", text):
                rec.count("near-misses-with-multiline-block-comment")
        st, fails, info = judge_text(text)
        rec.case(text, nontrivial=len(prog) > 3)
        rec.count("mutation:" + kind)
        if st != "ok":
            rec.count(st)
            if st.startswith("inconclusive"):
                rec.inconc(st)
            continue
        rec.count("near-misses-judged")
        if info.get("cmp") == "illegal-character":
            rec.count("illegal-character-texts-judged")
        if kind in ("exotic-character", "truncate") and ctx.rng.random() < 0.3:
            entry_points_agree(ctx, text)
        if info.get("cmp") == "both-reject" and error_is_in_the_header(text):
            # the first offending token stands before any body statement: the header-only entry points, which read up to the
            # first body statement, meet it as well
            oh = lib.outcome(lib.parse_header, text)
            rec.count("rejected-headers-through-the-header-only-entry-point")
            if oh[0] == "ok":
                rec.violation(sig("C02", "near-miss:header-only-parse-accepts-a-rejected-header"), {"text": text, "mutation": kind}, {"kind": "text", "text": text})
        rec.count("outcome:ref-%s/lib-%s" % (info["ref"], info["lib"]))
        if info.get("cmp") == "both-reject" and "pos" in info:
            rec.count("both-reject:position-checked")
            rec.count("position:" + info["pos"])
        if info.get("cmp") == "both-accept":
            rec.count("both-accept:tree-compared")
        for clause, detail in fails:
            rec.violation(sig("C02", "near-miss:" + clause), detail, {"kind": "text", "text": text})


_REDUCED = {}


def install_production_counters():
    """Count reductions per grammar production of the real LR parser (each Production's action
    function is wrapped; one function can serve several productions, so counting is per production)."""
    from jaqalpaq.parser import slyparse

    prods = slyparse.JaqalParser._grammar.Productions
    if _REDUCED:
        return prods
    for p in prods:
        if not callable(getattr(p, "func", None)):
            continue
        key = "%d:%s -> %s" % (p.number, p.name, " ".join(str(x) for x in p.prod) or "<empty>")
        _REDUCED[key] = 0

        def counted(parser, pslice, _f=p.func, _k=key):
            _REDUCED[_k] += 1
            return _f(parser, pslice)

        p.func = counted
    return prods


def report_productions(rec):
    never = sorted((k for k, v in _REDUCED.items() if v == 0), key=lambda k: int(k.split(":")[0]))
    outside = ("branch", "case", "import")  # constructs outside the listed grammar (not judged by C02)
    if _REDUCED and all(any(w in k.split(" -> ")[0] or w in k.split(" -> ")[1].lower() for w in outside) for k in never):
        rec.count("shards-reducing-every-production-of-the-listed-grammar")
    rec.maximum("productions-reduced-in-one-shard", sum(1 for v in _REDUCED.values() if v))
    rec.maximum("productions-total", len(_REDUCED))
    rec.count("reductions-observed", sum(_REDUCED.values()))
    rec.note("productions_never_reduced_in_shard_0", never)
    rec.note("reductions_per_production_in_shard_0", dict(sorted(_REDUCED.items(), key=lambda kv: int(kv[0].split(":")[0]))))


def shard(ctx):
    rec = ctx.rec
    monitors.install_contracts()
    install_production_counters()
    n = ctx.scale(3000, 100000)
    i = 0
    while i < n and not rec.expired():
        i += 1
        rng = ctx.rng
        g = gen.ProgGen(rng, max_depth=rng.choice([2, 3, 4]), p_hostile_names=rng.choice([0.0, 0.2]), need_register=rng.random() < 0.8,
                        body_len=(0, 5), n_macros=(0, 2), macro_sub=rng.random() < 0.3)
        prog = g.program()
        positives(ctx, prog, 4 if ctx.quick else 6)
        near_misses(ctx, prog, 7 if ctx.quick else 10)
        if i <= 2:
            rec.sample({"layout": sx.to_text(prog, random.Random(i))})
    # the reach of parser productions is reported as evidence
    report_productions(rec)
    monitors.report_contracts(rec)


def replay(ctx, case):
    if case.get("kind") == "entry":
        entry_points_agree(ctx, case["text"])
        return
    if case.get("kind") == "header":
        header_only_agrees(ctx, case["text"], sx.unnorm(case["prog"]) if isinstance(case["prog"], list) else case["prog"])
        return
    if case.get("kind") == "layout":
        prog = sx.unnorm(case["prog"]) if isinstance(case["prog"], list) else case["prog"]
        st, fails, info = judge_text(case["text"], expect_tree=prog)
        pre = "layout:"
    else:
        st, fails, info = judge_text(case["text"])
        pre = "near-miss:"
    for clause, detail in fails:
        ctx.rec.violation(sig("C02", pre + clause, layout_features(case["text"]) if pre == "layout:" else ()), detail, case)
