"""C02 -- the parser accepts exactly the Jaqal grammar and is insensitive to layout."""
import random

from .. import sx, gen, lib, refparse, monitors
from .common import sig, case_prog

RULE = ("(a) every generated derivation (full header/body model) rendered with >= 4 random layouts: separator choice (; | "
        "newline, repeated), padding, spaces/tabs, // comments before newlines, several /* */ comments per file incl. "
        "multi-line ones and ones containing code-like text; the library's S-expression must equal the derivation's and all "
        "layouts must build equal circuits; (b) near-misses: one token deleted / duplicated / swapped with its neighbour / "
        "replaced from the Jaqal token alphabet, truncation at every token boundary, a header statement moved after a body "
        "statement -- judged against an independent predictive parser (vf/refparse.py) for accept/reject, tree, and error "
        "position (a token at or after the first offending one, or end of input). non-trivial = program has >= 3 statements; "
        "distinct = text")
ASSUMPTIONS = ["reference grammar and lexer in vf/refparse.py (cross-checked on every positive: must accept with the model's tree)",
               "semantic rejections raised inside the parser (literal register size <= 0) and unlisted constructs (branch/case, "
               "'0101' literals, import..as) are outside the grammar clause and not judged"]
TIERS = {"quick": {"shards": 8, "budget_s": 50}, "thorough": {"shards": 16, "budget_s": 480}}
REQUIRE = {"shards-reducing-every-production-of-the-listed-grammar": 1, "layouts-checked": 2000, "near-misses-judged": 5000, "both-reject:position-checked": 2000,
           "layout:multiple-block-comments": 100, "layout:multiline-block-comment": 50, "layout:line-comment": 200,
           "mutation:truncate": 500, "mutation:header-after-body": 100, "both-accept:tree-compared": 300}

ALPHABET = ["register", "map", "let", "macro", "loop", "from", "usepulses", "subcircuit", "{", "}", "<", ">", "|", ";", "[", "]",
            ":", "*", ",", "\n", "q", "foo", "a", "x.y", "g", "0", "3", "-1", "+2", "1.5", "-0.25", "2.0e-3", ".m", "prepare_all"]


def lib_sexpr(text):
    """('ok', tree) | ('parse-error', line, col, msg) | ('exc', type, msg)."""
    from jaqalpaq.parser.slyparse import JaqalParseError

    try:
        return ("ok", sx.norm(lib.parse_sexpr(text)))
    except JaqalParseError as ex:
        return ("parse-error", ex.line, ex.column, str(ex))
    except Exception as ex:
        return ("exc", type(ex).__name__, str(ex)[:200])


def position_ok(toks, first_bad, line, col, text):
    """Is (line, col) the position of a token with index >= first_bad, or the end of input?"""
    if line == "EOF":
        return True, "eof-marker"
    if not isinstance(line, int) or not isinstance(col, int):
        return False, "non-integer position"
    for k in range(first_bad, len(toks)):
        t = toks[k]
        if t.line == line and t.col == col:
            return True, "token+%d" % min(k - first_bad, 3)
    last_line = toks[-1].line + (toks[-1].text.count("\n") if toks else 0) if toks else 1
    if first_bad >= len(toks) and line >= (toks[-1].line if toks else 1):
        return True, "end-of-input"
    return False, "not a token position at/after the first offending token"


def judge_text(text, expect_tree=None):
    """Compare library and reference on one text.  Returns (status, fails, info)."""
    ref = refparse.parse(text)
    got = lib_sexpr(text)
    info = {"ref": ref[0], "lib": got[0]}
    fails = []
    if ref[0] == "lex":
        return "skipped:not-lexable", fails, info  # C16's territory
    toks = ref[2]
    if any(t.kind in ("BININT", "BRANCH", "IMPORT", "AS") for t in toks):
        return "skipped:unlisted-construct", fails, info
    if ref[0] == "ok":
        if expect_tree is not None and not sx.sx_equal_strict(ref[1], expect_tree):
            return "inconclusive:reference-parser-disagrees-with-model", fails, info
        if got[0] == "ok":
            info["cmp"] = "both-accept"
            want = expect_tree if expect_tree is not None else ref[1]
            if not sx.sx_equal_strict(got[1], want):
                fails.append(("tree-differs", {"expected": want, "got": got[1], "text": text}))
        elif got[0] == "parse-error":
            fails.append(("rejects-derivable-text", {"error": got[3], "text": text}))
        else:
            fails.append(("rejects-derivable-text:" + got[1], {"error": got[2], "text": text}))
        return "ok", fails, info
    rej = ref[1]
    if rej.semantic:
        return "skipped:semantic-rule-in-parser", fails, info
    if got[0] == "ok":
        fails.append(("accepts-underivable-text", {"first_offending_token": rej.index, "why": rej.why, "text": text,
                                                   "tree": got[1]}))
        return "ok", fails, info
    info["cmp"] = "both-reject"
    if got[0] == "exc":
        eof = rej.index >= len(toks)
        fails.append(("rejected-with-wrong-exception:%s:%s" % (got[1], "at-end-of-input" if eof else "mid-text"),
                      {"error": got[2], "text": text}))
        return "ok", fails, info
    ok, how = position_ok(toks, rej.index, got[1], got[2], text)
    info["pos"] = how
    if not ok:
        bad = toks[rej.index] if rej.index < len(toks) else None
        where = "first-token-of-text" if (bad is not None and bad.pos == 0) else "elsewhere"
        fails.append(("error-position:" + where, {"reported": (got[1], got[2]), "first_offending": repr(bad), "why": how,
                                                  "message": got[3], "text": text}))
    return "ok", fails, info


# ---------------------------------------------------------------------------------------
def layout_features(text):
    f = []
    nblock = text.count("/*")
    if nblock >= 2:
        f.append("multiple-block-comments")
    if nblock >= 1:
        f.append("block-comment")
        import re

        if re.search(r"/\*[^*]*\n", text):
            f.append("multiline-block-comment")
    if "//" in text:
        f.append("line-comment")
    if ";" in text:
        f.append("semicolon")
    if "|" in text:
        f.append("bar")
    return f


def positives(ctx, prog, nlay):
    rec = ctx.rec
    canon = sx.to_text(prog)
    oc = lib.outcome(lib.parse, canon)
    circuits = []
    for k in range(nlay):
        lay = random.Random(ctx.rng.randrange(1 << 30))
        comments = k != 0
        text = sx.to_text(prog, lay, comments=comments)
        st, fails, info = judge_text(text, expect_tree=prog)
        rec.case(text, nontrivial=len(prog) > 3)
        rec.count("layouts-checked")
        feats = layout_features(text)
        for f in feats:
            rec.count("layout:" + f)
        if st != "ok":
            rec.count(st)
            if st.startswith("inconclusive"):
                rec.inconc(st + " :: " + text[:200])
            continue
        if info.get("cmp") == "both-accept":
            rec.count("both-accept:tree-compared")
        for clause, detail in fails:
            mech = [f for f in feats if f in ("multiple-block-comments", "multiline-block-comment", "line-comment")]
            small = shrink_text(text, clause, prog)
            cf = ("multiple-block-comments", "multiline-block-comment", "line-comment", "block-comment")
            rec.violation(sig("C02", "layout:" + clause, [f for f in layout_features(small["text"]) if f in cf] if small else mech),
                          small or detail, {"kind": "layout", "prog": prog, "text": text})
        if not fails and oc[0] == "ok":
            o = lib.outcome(lib.parse, text)
            if o[0] != "ok":
                rec.violation(sig("C02", "layout:circuit-rejected", feats), {"error": o[2], "text": text},
                              {"kind": "layout", "prog": prog, "text": text})
            else:
                try:
                    same = (o[1] == oc[1]) and (oc[1] == o[1])
                except Exception:
                    same = False
                rec.count("layout:circuits-compared")
                if not same:
                    rec.violation(sig("C02", "layout:circuit-differs", feats), {"text": text, "canonical": canon},
                                  {"kind": "layout", "prog": prog, "text": text})


def shrink_text(text, clause, prog):
    """Find a shorter layout of the same derivation that still fails the same clause:
    try removing whole comments one at a time."""
    import re

    cur = text
    changed = True
    tries = 0
    while changed and tries < 60:
        changed = False
        for m in list(re.finditer(r"/\*.*?\*/|//[^\n]*", cur, re.S)):
            tries += 1
            cand = cur[:m.start()] + " " + cur[m.end():]
            st, fails, info = judge_text(cand, expect_tree=prog)
            if st == "ok" and any(f[0] == clause for f in fails):
                cur = cand
                changed = True
                break
    st, fails, info = judge_text(cur, expect_tree=prog)
    d = [f[1] for f in fails if f[0] == clause]
    if d:
        d[0]["text"] = cur
        return d[0]
    return None


def render_tokens(toks):
    out = []
    for t in toks:
        out.append("\n" if t == "\n" else t)
    s = ""
    for t in out:
        if t == "\n":
            s += "\n"
        else:
            s += (" " if s and not s.endswith("\n") else "") + t
    return s


def mutants(rng, toks, prog, n):
    """n single-token mutants of a token list (strings)."""
    L = len(toks)
    out = []
    for _ in range(n):
        if L == 0:
            break
        kind = rng.choice(["delete", "duplicate", "swap", "replace", "replace", "truncate", "insert"])
        i = rng.randrange(L)
        t = list(toks)
        if kind == "delete":
            del t[i]
        elif kind == "duplicate":
            t.insert(i, t[i])
        elif kind == "swap":
            if L < 2:
                continue
            i = rng.randrange(L - 1)
            t[i], t[i + 1] = t[i + 1], t[i]
        elif kind == "replace":
            t[i] = rng.choice(ALPHABET)
        elif kind == "insert":
            t.insert(i, rng.choice(ALPHABET))
        else:
            t = t[:i]
        out.append((kind, t))
    return out


def header_after_body(rng, prog):
    hdr = [s for s in prog[1:] if s[0] in sx.HEADER]
    body = [s for s in prog[1:] if s[0] not in sx.HEADER]
    if not hdr or not body:
        return None
    h = rng.choice(hdr)
    rest = [s for s in prog[1:] if s is not h]
    # insert after at least one body statement
    first_body = next(i for i, s in enumerate(rest) if s[0] not in sx.HEADER)
    pos = rng.randint(first_body + 1, len(rest))
    rest.insert(pos, h)
    return ("circuit",) + tuple(rest)


def near_misses(ctx, prog, n):
    rec = ctx.rec
    rng = ctx.rng
    canon = sx.to_text(prog)
    try:
        toks = [t.text if t.kind != "NL" else "\n" for t in refparse.lex(canon)]
    except refparse.LexFailure:
        rec.inconc("canonical text not lexable")
        return
    cases = mutants(rng, toks, prog, n)
    if rng.random() < 0.3:
        # truncation at *every* token boundary of this program
        cases += [("truncate", toks[:i]) for i in range(len(toks))]
    hb = header_after_body(rng, prog)
    if hb is not None:
        cases.append(("header-after-body", None))
    for kind, t in cases:
        text = sx.to_text(hb) if kind == "header-after-body" else render_tokens(t)
        st, fails, info = judge_text(text)
        rec.case(text, nontrivial=len(prog) > 3)
        rec.count("mutation:" + kind)
        if st != "ok":
            rec.count(st)
            if st.startswith("inconclusive"):
                rec.inconc(st)
            continue
        rec.count("near-misses-judged")
        rec.count("outcome:ref-%s/lib-%s" % (info["ref"], info["lib"]))
        if info.get("cmp") == "both-reject" and "pos" in info:
            rec.count("both-reject:position-checked")
            rec.count("position:" + info["pos"])
        if info.get("cmp") == "both-accept":
            rec.count("both-accept:tree-compared")
        for clause, detail in fails:
            rec.violation(sig("C02", "near-miss:" + clause), detail, {"kind": "text", "text": text})


_REDUCED = {}


def install_production_counters():
    """Count reductions per grammar production of the real LR parser (each Production's action
    function is wrapped; one function can serve several productions, so counting is per production)."""
    from jaqalpaq.parser import slyparse

    prods = slyparse.JaqalParser._grammar.Productions
    if _REDUCED:
        return prods
    for p in prods:
        if not callable(getattr(p, "func", None)):
            continue
        key = "%d:%s -> %s" % (p.number, p.name, " ".join(str(x) for x in p.prod) or "<empty>")
        _REDUCED[key] = 0

        def counted(parser, pslice, _f=p.func, _k=key):
            _REDUCED[_k] += 1
            return _f(parser, pslice)

        p.func = counted
    return prods


def report_productions(rec):
    never = sorted((k for k, v in _REDUCED.items() if v == 0), key=lambda k: int(k.split(":")[0]))
    outside = ("branch", "case", "import")  # constructs outside the listed grammar (not judged by C02)
    if _REDUCED and all(any(w in k.split(" -> ")[0] or w in k.split(" -> ")[1].lower() for w in outside) for k in never):
        rec.count("shards-reducing-every-production-of-the-listed-grammar")
    rec.maximum("productions-reduced-in-one-shard", sum(1 for v in _REDUCED.values() if v))
    rec.maximum("productions-total", len(_REDUCED))
    rec.count("reductions-observed", sum(_REDUCED.values()))
    rec.note("productions_never_reduced_in_shard_0", never)
    rec.note("reductions_per_production_in_shard_0", dict(sorted(_REDUCED.items(), key=lambda kv: int(kv[0].split(":")[0]))))


def shard(ctx):
    rec = ctx.rec
    monitors.install_contracts()
    install_production_counters()
    n = ctx.scale(3000, 100000)
    i = 0
    while i < n and not rec.expired():
        i += 1
        rng = ctx.rng
        g = gen.ProgGen(rng, max_depth=rng.choice([2, 3, 4]), p_hostile_names=rng.choice([0.0, 0.2]), need_register=rng.random() < 0.8,
                        body_len=(0, 5), n_macros=(0, 2), macro_sub=rng.random() < 0.3)
        prog = g.program()
        positives(ctx, prog, 4 if ctx.quick else 6)
        near_misses(ctx, prog, 7 if ctx.quick else 10)
        if i <= 2:
            rec.sample({"layout": sx.to_text(prog, random.Random(i))})
    # the reach of parser productions is reported as evidence
    report_productions(rec)
    monitors.report_contracts(rec)


def replay(ctx, case):
    if case.get("kind") == "layout":
        prog = sx.unnorm(case["prog"]) if isinstance(case["prog"], list) else case["prog"]
        st, fails, info = judge_text(case["text"], expect_tree=prog)
        pre = "layout:"
    else:
        st, fails, info = judge_text(case["text"])
        pre = "near-miss:"
    for clause, detail in fails:
        ctx.rec.violation(sig("C02", pre + clause, layout_features(case["text"]) if pre == "layout:" else ()), detail, case)
