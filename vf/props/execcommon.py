"""Shared set-up for the emulator properties (C03, C06, C08, C12, C13, C15)."""
import numpy as np

from .. import sx, lib, meaning as M, gateset, refexec

NATIVE = {}
BUDGET_PER_NODE = 400


def native(variant="A"):
    if variant not in NATIVE:
        NATIVE[variant] = gateset.make(variant=variant)
    return NATIVE[variant]


class Setup:
    pass


def setup(prog, ov=None, text=None, validate=True, variant="A", assemble=False):
    """Parse with the harness gate set (or, with assemble=True, put the circuit together from core objects, see
    apiroute.assemble_from_objects) and build the reference Program.
    Returns (status, Setup|None); status 'ok' | 'skipped:...' | 'inconclusive:...'."""
    text = text if text is not None else sx.to_text(prog)
    if assemble == "builder" or (isinstance(assemble, tuple) and assemble[0] == "builder"):
        # through the object-oriented CircuitBuilder with the gate set in force (objects built at once or unevaluated)
        from . import builder_route

        bseed = assemble[1] if isinstance(assemble, tuple) else 0
        o = lib.outcome(lambda: builder_route.via_builder(prog, bseed, native=native(variant))[0])
    elif assemble:
        from .. import apiroute

        o = lib.outcome(apiroute.assemble_from_objects, prog, native(variant))
    else:
        o = lib.outcome(lib.parse, text, native(variant))
    s = Setup()
    s.text = text
    s.parse_outcome = o
    if o[0] != "ok":
        return "skipped:input-rejected:" + o[1], s
    s.c = o[1]
    try:
        # the reference is read from the circuit the parser made; a circuit put together through the builder is judged
        # against the PROGRAM it was meant to be (reading it back would take a builder's mistake for the intention)
        s.core = M.core_from_sx(prog) if (assemble == "builder" or (isinstance(assemble, tuple) and assemble[0] == "builder")) else M.core_from_ir(s.c)
        if validate:
            M.validate(s.core, ov or {})
        s.tree = M.full_meaning(s.core, env=ov or {})
        funds = s.core.fundamental()
        if len(funds) != 1:
            return "skipped:register-count:%d" % len(funds), s
        ev = M.Evaluator(s.core, env=ov or {}, resolve=True)
        s.n = len(ev.elems(funds[0], {}))
    except M.MeaningError as ex:
        s.meaning_error = ex
        return "skipped:no-reference-meaning:" + ex.kind, s
    except M.OracleError as ex:
        return "inconclusive:oracle:%s" % ex, s
    s.P = refexec.Program(s.tree, s.n, variant=variant)
    return "ok", s


def budget_for(P):
    """Generous logical step budget: 400 line events per node of the unrolled program per
    subcircuit-ish factor, floor 20000 (calibrated: max observed/budget ratio is reported)."""
    size = P.unrolled_size()
    nsub = sum(1 for leaf in P.leaves if leaf.name == P.m_gate) + 1
    depth = max([len(P.loops_of(leaf)) for leaf in P.leaves] or [0]) + 1
    return 20000 + BUDGET_PER_NODE * (size + nsub * len(P.nodes)) * depth


_SHARED_BACKEND = [None]


def shared_backend():
    """One backend object reused for many circuits of a process (state kept on a backend between
    circuits must not leak from one circuit into the next)."""
    if _SHARED_BACKEND[0] is None:
        from jaqalpaq.emulator.unitary import UnitarySerializedEmulator

        _SHARED_BACKEND[0] = UnitarySerializedEmulator()
    return _SHARED_BACKEND[0]


def run(s, ov=None, seed=1, budget=None):
    c = s.c
    if ov:
        o = lib.outcome(lib.fill_in_let, c, ov)
        if o[0] != "ok":
            return o + (0,) if len(o) == 3 else o
        c = o[1]
    np.random.seed(seed)
    del gateset.EVENT_LOG[:]
    kw = {"backend": shared_backend()} if seed % 2 else {}
    return lib.budgeted(lib.run, budget or budget_for(s.P), c, **kw)


def result_view(res):
    subs = []
    for sc in res.subcircuits:
        sv = getattr(sc, "state_vector", None)
        subs.append({
            "index": sc.index,
            "state": None if sv is None else np.asarray(sv).copy(),
            "probs": np.asarray(sc.simulated_probability_by_int).copy() if hasattr(sc, "simulated_probability_by_int") else None,
            "readouts": [r.index for r in sc.readouts],
            "rf": np.asarray(sc.relative_frequency_by_int).copy(),
        })
    ros = [(r.index, r.subcircuit.index, r.as_int, r.as_str) for r in res.readouts]
    return subs, ros
