"""Shared set-up for the emulator properties (C03, C06, C08, C12, C13, C15)."""
import numpy as np

from .. import sx, lib, meaning as M, gateset, refexec

NATIVE = {}
BUDGET_PER_NODE = 400


def native(variant="A"):
    if variant not in NATIVE:
        NATIVE[variant] = gateset.make(variant=variant)
    return NATIVE[variant]


class Setup:
    pass


def setup(prog, ov=None, text=None, validate=True, variant="A", assemble=False):
    """Parse with the harness gate set (or, with assemble=True, put the circuit together from core objects, see
    apiroute.assemble_from_objects) and build the reference Program.
    Returns (status, Setup|None); status 'ok' | 'skipped:...' | 'inconclusive:...'."""
    text = text if text is not None else sx.to_text(prog)
    if assemble == "builder" or (isinstance(assemble, tuple) and assemble[0] == "builder"):
        # through the object-oriented CircuitBuilder with the gate set in force (objects built at once or unevaluated)
        from . import builder_route

        bseed = assemble[1] if isinstance(assemble, tuple) else 0
        o = lib.outcome(lambda: builder_route.via_builder(prog, bseed, native=native(variant))[0])
    elif assemble == "build":
        # the documented S-expression route; a loop whose only statement is a subcircuit block gets that block as its body
        # directly (the builder accepts this shape, the text grammar has no spelling for it)
        from . import c09

        o = lib.outcome(lib.build, c09.loop_body_is_subcircuit(prog), native(variant))
    elif assemble:
        from .. import apiroute

        o = lib.outcome(apiroute.assemble_from_objects, prog, native(variant))
    else:
        o = lib.outcome(lib.parse, text, native(variant))
    s = Setup()
    s.text = text
    s.parse_outcome = o
    if o[0] != "ok":
        return "skipped:input-rejected:" + o[1], s
    s.c = o[1]
    try:
        # the reference is read from the circuit the parser made; a circuit put together through the builder is judged
        # against the PROGRAM it was meant to be (reading it back would take a builder's mistake for the intention)
        s.core = M.core_from_sx(prog) if (assemble in ("builder", "build") or (isinstance(assemble, tuple) and assemble[0] == "builder")) else M.core_from_ir(s.c)
        if validate:
            M.validate(s.core, ov or {})
        s.tree = M.full_meaning(s.core, env=ov or {})
        funds = s.core.fundamental()
        if len(funds) != 1:
            return "skipped:register-count:%d" % len(funds), s
        ev = M.Evaluator(s.core, env=ov or {}, resolve=True)
        s.n = len(ev.elems(funds[0], {}))
    except M.MeaningError as ex:
        s.meaning_error = ex
        return "skipped:no-reference-meaning:" + ex.kind, s
    except M.OracleError as ex:
        return "inconclusive:oracle:%s" % ex, s
    s.P = refexec.Program(s.tree, s.n, variant=variant)
    return "ok", s


def budget_for(P):
    """Generous logical step budget: 400 line events per node of the unrolled program per
    subcircuit-ish factor, floor 20000 (calibrated: max observed/budget ratio is reported)."""
    size = P.unrolled_size()
    nsub = sum(1 for leaf in P.leaves if leaf.name == P.m_gate) + 1
    depth = max([len(P.loops_of(leaf)) for leaf in P.leaves] or [0]) + 1
    return 20000 + BUDGET_PER_NODE * (size + nsub * len(P.nodes)) * depth


def nesting_through_macros_ok(prog):
    """No call of a macro that holds a subcircuit block (itself or through the macros it calls) from inside a subcircuit
    block or a parallel block -- the indirect form of the nesting rule."""
    holds = {}

    def has_sub(s):
        if not isinstance(s, tuple):
            return False
        if s[0] == "subcircuit_block":
            return True
        if s[0] == "gate":
            return holds.get(s[1], False)
        return any(has_sub(x) for x in s[1:])

    def ok(s, inside):
        if not isinstance(s, tuple):
            return True
        if s[0] == "gate":
            return not (inside and holds.get(s[1], False))
        if s[0] in ("subcircuit_block", "parallel_block"):
            return all(ok(x, True) for x in s[1:])
        return all(ok(x, inside) for x in s[1:])

    for s in prog[1:]:
        if s[0] == "macro":
            if not ok(s[-1], False):
                return False
            holds[s[1]] = has_sub(s[-1])
        elif s[0] not in sx.HEADER and not ok(s, False):
            return False
    return True


def refused_when_built(prog, ov=None, variant="A"):
    """The parser (or builder) refused the program.  Is it one that ought to run?  Decided on the model alone."""
    if not sx.legal_nesting(prog) or not nesting_through_macros_ok(prog):
        return None
    try:
        core = M.core_from_sx(prog)
        M.validate(core, ov or {})
        tree = M.full_meaning(core, env=ov or {})
        funds = core.fundamental()
        if len(funds) != 1:
            return None
        n = len(M.Evaluator(core, env=ov or {}, resolve=True).elems(funds[0], {}))
        P = refexec.Program(tree, n, variant=variant)
        if P.overlap() is not None or P.repeated_qubit_gate() is not None:
            return None
        scan = P.flat_scan()
        if scan["trailing_gates"]:
            return None
    except (M.MeaningError, M.OracleError, refexec.Reject):
        return None
    return True



_SHARED_BACKEND = [None]


def shared_backend():
    """One backend object reused for many circuits of a process (state kept on a backend between
    circuits must not leak from one circuit into the next)."""
    if _SHARED_BACKEND[0] is None:
        from jaqalpaq.emulator.unitary import UnitarySerializedEmulator

        _SHARED_BACKEND[0] = UnitarySerializedEmulator()
    return _SHARED_BACKEND[0]


PULSE_LINE = "from vf.pulsemod usepulses *\n"


def run_text(text, entry):
    """The program as text through run_jaqal_string / run_jaqal_file; the gates come from the module the text names."""
    import os
    import tempfile

    mod = lib._m("jaqalpaq.run.run")
    if entry == "string":
        return mod.run_jaqal_string(PULSE_LINE + text)
    d = tempfile.mkdtemp(prefix="vf-run-")
    path = os.path.join(d, "prog.jaqal")
    try:
        with open(path, "w") as fd:
            fd.write(PULSE_LINE + text)
        return mod.run_jaqal_file(path)
    finally:
        try:
            os.remove(path)
        finally:
            os.rmdir(d)


def run(s, ov=None, seed=1, budget=None, entry=None):
    if entry in ("string", "file") and not ov:
        np.random.seed(seed)
        del gateset.EVENT_LOG[:]
        return lib.budgeted(run_text, budget or budget_for(s.P), s.text, entry)
    c = s.c
    if ov:
        o = lib.outcome(lib.fill_in_let, c, ov)
        if o[0] != "ok":
            return o + (0,) if len(o) == 3 else o
        c = o[1]
    np.random.seed(seed)
    del gateset.EVENT_LOG[:]
    kw = {"backend": shared_backend()} if seed % 2 else {}
    if seed % 8 == 2:
        kw = {"emulator_backend": shared_backend()}  # the older spelling of the same option (warns, must do the same)
    elif seed % 8 == 4:
        kw = {"force_sim": True}

    def go():
        import warnings

        with warnings.catch_warnings():
            warnings.simplefilter("ignore")
            return lib.run(c, **kw)

    return lib.budgeted(go, budget or budget_for(s.P))


def result_view(res):
    subs = []
    for sc in res.subcircuits:
        sv = getattr(sc, "state_vector", None)
        subs.append({
            "index": sc.index,
            "state": None if sv is None else np.asarray(sv).copy(),
            "probs": np.asarray(sc.simulated_probability_by_int).copy() if hasattr(sc, "simulated_probability_by_int") else None,
            "readouts": [r.index for r in sc.readouts],
            "rf": np.asarray(sc.relative_frequency_by_int).copy(),
        })
    ros = [(r.index, r.subcircuit.index, r.as_int, r.as_str) for r in res.readouts]
    return subs, ros
