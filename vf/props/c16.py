"""C16 -- failures are JaqalErrors with a position; no crashes, hangs or sticky state."""
import json
import os
import random
import re
import subprocess
import sys

from .. import sx, gen, lib, refparse, monitors, fingerprint, harness
from .common import sig
from . import execcommon as X

RULE = ("(a) random strings over a weighted alphabet (Jaqal tokens and characters, illegal characters, CR, NUL, non-ASCII, long "
        "lines); (b) truncation of valid programs at character boundaries; unterminated blocks and comments; (c) semantic garbage "
        "(token mutants of valid programs fed to the full front end, templates: indexing non-registers, no register / two "
        "registers, gates before the register, huge and negative numbers); each text goes through parse_to_sexpression, "
        "parse_jaqal_string with random flag combinations and, when it parses with a register of <= 6 qubits, run_jaqal_circuit; "
        "(d) call histories: shuffled interleavings of failing and succeeding texts executed in fresh interpreter processes, "
        "per-text outcome fingerprints compared across positions, across histories and with single-text processes, plus the "
        "process-global fingerprint after every call; (e) relative pulse imports against a scratch module in a fresh interpreter. "
        "non-trivial = text has >= 3 tokens or an illegal character; distinct = (text, entry point)")
ASSUMPTIONS = ["termination restated as a step budget of 2e5 + 2e3*len(text) line events inside jaqalpaq modules per call",
               "texts declaring registers larger than 6 qubits, or whose loops unroll to more than 20000 statement executions, are parsed but not executed (resource use proportional to the program, not termination)",
               "ImportError is accepted only when the program names a pulse module and pulses are auto-loaded"]
TIERS = {"quick": {"shards": 8, "budget_s": 400}, "thorough": {"shards": 16, "budget_s": 480}}
REQUIRE = {"entry-points-compared-with-and-without-return_usepulses": 2000, "entry:runstr": 1500, "import-layout-histories": 30, "alternating-twin-parses": 400, "class:deep-nesting-from-deep-stack": 40, "hang-probes": 15, "calls": 20000, "class:random": 1000, "class:truncation": 2000, "class:mutant": 2000, "class:template": 200,
           "outcome:JaqalParseError": 2000, "outcome:JaqalError": 500, "outcome:ok": 500, "position-checked": 2000,
           "histories": 8, "history-steps": 300, "fresh-single-text-runs": 8, "illegal-character-texts": 200,
           "relative-import-probes": 1}

ALPH = (["register", "map", "let", "macro", "loop", "from", "usepulses", "subcircuit", "branch", "import", "as"] * 2
        + ["{", "}", "<", ">", "|", ";", "[", "]", ":", "*", ",", "\n", "\n", " ", " ", "\t"] * 3
        + ["q", "q", "r", "foo", "a", "b", "x.y", "g", "prepare_all", "measure_all", "X", "Rx", "CX"] * 2
        + ["0", "1", "2", "3", "-1", "+2", "99999999999999999999", "1.5", "-0.25", "2.0e-3", ".m", "1e5", "1.", ".5", "'01'", "0x1f"]
        + ["//", "/*", "*/", "/", "#", "@", "$", "%", "^", "&", "(", ")", "=", "!", "?", "\"", "'", "`", "~", "\\", "\r", "\0",
           "é", "π", "☃", "\x7f"])

# things that are no registers, aliased and indexed in every way the grammar allows
NON_REGISTERS = [("let-int", "let s 1\nregister q[2]\n"), ("let-float", "let s 0.5\nregister q[2]\n"),
                 ("single-qubit-alias", "register q[2]\nmap s q[0]\n"), ("macro", "register q[2]\nmacro s a { X a }\n"),
                 ("undefined", "register q[2]\n"), ("alias-of-single-qubit-alias", "register q[2]\nmap one q[1]\nmap s one\n")]
NON_REGISTER_USES = ["map b s\n", "map b s[0]\n", "map b s[0:1]\n", "map b s[1:]\n", "map b s[:]\n", "map b s[::2]\n", "map b s[:1]\n",
                     "map b s[0:1:1]\n", "map b s[1::-1]\n", "map b s\nX b[0]\n", "map b s[0:]\nprepare_all\nX b[0]\nmeasure_all\n",
                     "X s[0]\n", "prepare_all\nX s[0:1]\nmeasure_all\n", "macro m r { X r[0] }\nm s\n"]

# map bounds far beyond anything a register holds, in every position of a slice, counting up and counting down
HUGE = "99999999999999999999"
HUGE_SLICES = ["register q[4]\nmap a q[%s]\nprepare_all\nX a[0]\nmeasure_all\n" % sl for sl in (
    HUGE + ":0:-1", "3:-" + HUGE + ":-1", "3:0:-" + HUGE, HUGE + ":-" + HUGE + ":-1", "0:" + HUGE, "0:" + HUGE + ":2", HUGE + ":", "-" + HUGE + ":2",
    "0:2:" + HUGE, HUGE + ":" + HUGE + ":" + HUGE, ":" + HUGE + ":-1", HUGE + "::-1")] + [
    "let b %s\nregister q[4]\nmap a q[b:0:-1]\nprepare_all\nX a[0]\nmeasure_all\n" % HUGE,
    "let b -%s\nregister q[4]\nmap a q[3:b:-1]\nprepare_all\nX a[0]\nmeasure_all\n" % HUGE,
    "let n 4\nregister q[n]\nmap a q[%s:0:-1]\nprepare_all\nX a[0]\nmeasure_all\n" % HUGE]

TEMPLATES = HUGE_SLICES + [hdr + use for _tag, hdr in NON_REGISTERS for use in NON_REGISTER_USES] + [
    # literals whose magnitude overflows a float, both signs, in every role a number can play
    "register q[1]\nprepare_all\nRx q[0] -1.0e999\nmeasure_all\n",
    "register q[1]\nprepare_all\nRx q[0] -.5e400\nmeasure_all\n",
    "register q[1]\nprepare_all\nRx q[0] +7.0e308999\nmeasure_all\n",
    "register q[1]\nmacro m n { loop n { prepare_all ; measure_all } }\nm -1.0e999\n",
    "register q[2]\nmacro m k { prepare_all ; X q[k] ; measure_all }\nm -2.5e4000\n",
    "register q[1]\nmacro m n { subcircuit n { X q[0] } }\nm -1.0e999\n",
    "let a -1.0e999\nregister q[1]\nprepare_all\nRx q[0] a\nmeasure_all\n",
    "register q[1]\nX '" + "1" * 20000 + "'\n",
    "register q[1]\nprepare_all\nX q[0] '" + "10" * 9000 + "'\nmeasure_all\n",
    "",
    "\n\n",
    "register q[2]\nregister r[2]\nprepare_all\nmeasure_all\n",
    "prepare_all\nmeasure_all\n",
    "X q[0]\nregister q[2]\n",
    "let a 1\nX a[0]\n",
    "let a 1\nmap b a\n",
    "let a 1\nmap b a[0]\n",
    "register q[2]\nmap a q[1]\nX a[0]\n",
    "register q[2]\nmap a q[1]\nmap b a[0]\n",
    "register q[2]\nmacro foo a { X a }\nX foo[0]\n",
    "register q[2]\nmacro foo a { X a }\nmap b foo\n",
    "register q[2]\nprepare_all\nX q[2]\nmeasure_all\n",
    "register q[2]\nprepare_all\nX q[-1]\nmeasure_all\n",
    "register q[2]\nprepare_all\nX q[99999999999999999999]\nmeasure_all\n",
    "register q[0]\n",
    "register q[-3]\n",
    "register q[2]\nlet q 1\n",
    "let a 1\nlet a 2\n",
    "register q[2]\nmacro q a { }\n",
    "register q[2]\nmacro foo a a { X a }\n",
    "register q[2]\nmacro foo { foo }\nprepare_all\nfoo\nmeasure_all\n",
    "register q[2]\nprepare_all\nRx q[0]\nmeasure_all\n",
    "register q[2]\nprepare_all\nRx q[0] q[1]\nmeasure_all\n",
    "register q[2]\nprepare_all\nRx 1.0 q[0]\nmeasure_all\n",
    "register q[2]\nprepare_all\nCX q[0] q[0]\nmeasure_all\n",
    "register q[2]\nprepare_all\nNoSuchGate q[0]\nmeasure_all\n",
    "register q[2]\nprepare_all\n< X q[0] | X q[0] >\nmeasure_all\n",
    "register q[2]\nloop -1 { prepare_all ; measure_all }\n",
    "register q[2]\nloop 1.5 { prepare_all ; measure_all }\n",
    "let n 1.5\nregister q[n]\n",
    "let n 0\nregister q[n]\nprepare_all\nmeasure_all\n",
    "let n -2\nregister q[n]\nprepare_all\nmeasure_all\n",
    "register q[2]\nmap a q[1:0]\n",
    "register q[2]\nmap a q[0:5]\n",
    "register q[2]\nmap a q[0:2:0]\n",
    "register q[2]\nmap a q[0:2:-1]\n",
    "register q[2]\nmap a q[3]\n",
    "register q[2]\nsubcircuit { subcircuit { X q[0] } }\n",
    "register q[2]\n< subcircuit { X q[0] } >\n",
    "register q[2]\nsubcircuit -1 { X q[0] }\n",
    "register q[2]\nprepare_all\nmeasure_all\nmeasure_all\n",
    "register q[2]\nX q[0]\n",
    "register q[2]\nprepare_all\nX q\nmeasure_all\n",
    "register q[2]\nprepare_all\nX 3\nmeasure_all\n",
    "register q[2]\nprepare_all\nX q[1.0]\nmeasure_all\n",
    "register q[2]\nmacro foo a { X a[0] }\nprepare_all\nfoo q[0]\nmeasure_all\n",
    "register q[2]\nmacro foo a { X q[a] }\nprepare_all\nfoo 5\nmeasure_all\n",
    "register q[2]\nmacro foo a { X q[a] }\nprepare_all\nfoo 0.5\nmeasure_all\n",
    "register q[2]\nmacro foo a { X a }\nprepare_all\nfoo 1\nmeasure_all\n",
    "register q[2]\nmacro foo a { Rx q[0] a }\nprepare_all\nfoo q[1]\nmeasure_all\n",
    "register q[2]\nmacro foo a { loop a { X q[0] } }\nprepare_all\nfoo q[1]\nmeasure_all\n",
    "from nonexistent.module usepulses *\nregister q[1]\n",
    "from .nonexistent usepulses *\nregister q[1]\n",
    "from . usepulses *\nregister q[1]\n",
    "import foo as bar\n",
    "branch { '0': { X q[0] } }\n",
    "register q[1]\n/* unterminated\nX q[0]\n",
    "register q[1]\n{ X q[0]\n",
    "register q[1]\n< X q[0]\n",
    "register q[1]\nloop 2 {\n",
    "register q[1]\nmacro foo {\n",
    "register q[1] // comment only\n",
    "register q[1]\nprepare_all\nX q[0] /* */ /* */\nmeasure_all\n",
    "let a 1e400\n",
    "let a 1.0e400\nregister q[1]\nprepare_all\nRx q[0] a\nmeasure_all\n",
    "register q[1]\nprepare_all\nRx q[0] 1.0e400\nmeasure_all\n",
    # zero / negative strides, used and unused
    "register q[2]\nmap a q[0:2:0]\nprepare_all\nX a[0]\nmeasure_all\n",
    "register q[2]\nmap a q[0:2:0]\nmap b a\n",
    "register q[3]\nmap a q[2:0:-1]\nprepare_all\nX a[0]\nmeasure_all\n",
    "let s 0\nregister q[2]\nmap a q[0:2:s]\nprepare_all\nX a[0]\nmeasure_all\n",
    # very deep nesting
    "register q[1]\n" + "{<" * 150 + "X q[0]" + ">}" * 150 + "\n",
    "register q[1]\n" + "loop 1 { " * 300 + "prepare_all ; measure_all" + " }" * 300 + "\n",
    "register q[1]\nmacro m a " + "{<" * 200 + "X a" + ">}" * 200 + "\nprepare_all\nm q[0]\nmeasure_all\n",
    # long chains of macros calling macros
    "register q[1]\nmacro m0 a { X a }\n" + "".join("macro m%d a { m%d a }\n" % (i + 1, i) for i in range(300)) + "prepare_all\nm300 q[0]\nmeasure_all\n",
    "register q[1]\nmacro m0 a { X a }\n" + "".join("macro m%d a { m%d a }\n" % (i + 1, i) for i in range(120)) + "prepare_all\nm120 q[0]\nmeasure_all\n",
    # bounds far beyond any register, on a let-sized source (cannot be checked at declaration)
    "let n 2\nregister q[n]\nmap a q[0:99999999999999999999999999]\nprepare_all\nX a[0]\nmeasure_all\n",
    "let n 2\nregister q[n]\nmap a q[99999999999999999999999999:]\nprepare_all\nX a[0]\nmeasure_all\n",
    "let n 2\nlet big 99999999999999999999999999\nregister q[n]\nmap a q[0:2:big]\nprepare_all\nX a[0]\nmeasure_all\n",
    "let n 2\nregister q[n]\nprepare_all\nX q[99999999999999999999999999]\nmeasure_all\n",
    # enormous literals
    "let a " + "9" * 5000 + "\n",
    "register q[1]\nprepare_all\nRx q[0] 0." + "1" * 5000 + "\nmeasure_all\n",
    "register q[" + "9" * 30 + "]\n",
    "register q[1]\nloop " + "9" * 30 + " { }\n",
]


def msg_class(msg):
    m = re.sub(r"`[^`]*`", "`_`", msg)
    m = re.sub(r"'[^']*'", "'_'", m)
    m = re.sub(r"<[^>]*>", "<_>", m)
    m = re.sub(r"\d+", "N", m)
    m = re.sub(r"\b(Register|NamedQubit|Constant|Parameter|GateStatement|BlockStatement|Macro)\([^)]*\)*", r"\1(_)", m)
    return m[:70]


def call(entry, text, flags=None, budget=None):
    """Run one entry point on one text under a step budget; classify the outcome."""
    from jaqalpaq.parser.slyparse import JaqalParseError
    from jaqalpaq.error import JaqalError

    flags = flags or {}
    budget = budget or (200000 + 2000 * len(text))
    state = {}

    def work():
        if entry == "sexpr":
            return lib.parse_sexpr(text)
        if entry == "sexpr+usepulses":
            return lib._m("jaqalpaq.parser.parser").parse_to_sexpression(text, return_usepulses=True)
        if entry == "header":
            return lib.parse_header(text)
        if entry == "header+usepulses":
            return lib._m("jaqalpaq.parser.parser").parse_jaqal_string_header(text, return_usepulses=True)
        kw = {k: v for k, v in flags.items() if k in ("expand_macro", "expand_let", "expand_let_map", "return_usepulses")}
        kw["autoload_pulses"] = bool(flags.get("autoload"))
        if flags.get("native"):
            kw["inject_pulses"] = X.native()
        c = lib.parse(text, **kw)
        if isinstance(c, tuple):
            c = c[0]
        state["circuit"] = c
        if entry == "runstr":
            # the text-level execution entry point; the program names its gates itself (one line in front of the text)
            return run_part(c, text_entry=True)
        if entry == "run" and flags.get("stack"):
            # parsed by a caller near the top of the stack, run by one much further down
            return deeper(int(flags["stack"]), lambda: run_part(c))
        return run_part(c) if entry == "run" else c

    def deeper(k, fn):
        return fn() if k <= 0 else deeper(k - 1, fn)

    def run_part(c, text_entry=False):
        if True:
            regs = [r for r in c.registers.values() if getattr(r, "fundamental", False)]
            size = None
            try:
                size = int(regs[0]._size if not hasattr(regs[0]._size, "value") else regs[0]._size.value) if regs else None
            except Exception:
                size = None
            if regs and size is not None and size > 6:
                state["skipped_run"] = True
                return c
            bound = unrolled_bound(c)
            try:
                bound = max(bound, unrolled_bound(lib.expand_macros(lib.fill_in_let(lib.expand_subcircuits(c)))))
            except Exception:
                pass  # the run below raises the same error
            if bound > 20000:
                # emulating 10^20 loop iterations is resource use proportional to the program, not a hang
                state["skipped_run"] = True
                return c
            import numpy

            numpy.random.seed(7)
            state["ran"] = True
            if text_entry:
                return lib._m("jaqalpaq.run.run").run_jaqal_string(X.PULSE_LINE + text)
            if flags.get("shared_backend"):
                # one backend object for every circuit of the process, whatever their registers
                return lib.run(c, backend=X.shared_backend())
            return lib.run(c)
        return c

    mon = lib.step_monitor_all()
    st, v, steps = mon.run(work, budget)
    info = {"steps": steps, "budget": budget}
    info.update({k: True for k in state if k != "circuit"})
    if st == "ok":
        return ("ok", None, None), info
    if st == "budget":
        return ("budget", None, None), info
    ex = v
    if isinstance(ex, JaqalParseError):
        if entry == "runstr" and state.get("ran") and isinstance(ex.line, int):
            return ("JaqalParseError", (ex.line - 1, ex.column), str(ex)), info  # one line was put in front of the text
        return ("JaqalParseError", (ex.line, ex.column), str(ex)), info
    if isinstance(ex, JaqalError):
        return ("JaqalError", None, str(ex)), info
    if isinstance(ex, ImportError):
        return ("ImportError", None, str(ex)), info
    import traceback as _tb

    frames = _tb.extract_tb(ex.__traceback__)
    info["where"] = ["%s:%d:%s" % (f.filename.split("/")[-1], f.lineno, f.name) for f in frames[-4:]]
    info["stack_depth"] = len(frames)
    return ("other:" + type(ex).__name__, None, str(ex)[:200]), info


def unrolled_bound(c):
    """Upper bound of the number of statement executions of the unrolled program (loop counts
    multiplied along the nesting, macro calls followed)."""
    from jaqalpaq.core import BlockStatement, LoopStatement, GateStatement, Macro

    memo = {}

    def n(s, depth=0):
        if depth > 60:
            return 1
        if isinstance(s, LoopStatement):
            it = s.iterations
            it = getattr(it, "value", it)
            try:
                it = max(int(it), 0)
            except Exception:
                it = 1
            return 1 + it * n(s.statements, depth + 1)
        if isinstance(s, BlockStatement):
            return 1 + sum(n(x, depth + 1) for x in s.statements)
        if isinstance(s, GateStatement) and isinstance(s.gate_def, Macro):
            k = id(s.gate_def)
            if k not in memo:
                memo[k] = n(s.gate_def.body, depth + 1)
            return 1 + memo[k]
        return 1

    try:
        return n(c.body)
    except RecursionError:
        return 1


def first_illegal(text):
    try:
        refparse.lex(text)
        return None
    except refparse.LexFailure as ex:
        return ex


def check_position(text, pos):
    """JaqalParseError position rule (see DESIGN C16)."""
    line, col = pos
    if line == "EOF":
        return True
    if not isinstance(line, int) or not isinstance(col, int):
        return False
    ill = first_illegal(text)
    if ill is not None:
        # lexical error (or a syntax error before it): the position of a token before it, or of the offending
        # character / literal itself (its first character)
        if (line, col) == (ill.line, ill.col):
            return True
        if (line, col) > (ill.line, ill.col):
            return False
        try:
            toks = refparse.lex(text[:ill.pos])
        except refparse.LexFailure:
            return True
    else:
        toks = refparse.lex(text)
    if any(t.line == line and t.col == col for t in toks):
        return True
    last = toks[-1].line + toks[-1].text.count("\n") if toks else 1
    return line >= last and ill is None


def uses_pulse_import(text):
    return re.search(r"\bfrom\b[^\n]*\busepulses\b", text) is not None


def judge(case):
    text = case["text"]
    entry = case["entry"]
    flags = case.get("flags") or {}
    out, info = call(entry, text, flags)
    kind = out[0]
    fails = []
    if kind == "budget":
        fails.append(("step-budget-exceeded:" + entry, {"budget": info["budget"], "text": text[:300]}))
    elif kind.startswith("other:"):
        stage = entry if not info.get("ran") else "run:emulation"
        fails.append(("wrong-exception:%s:%s:%s" % (kind[6:], stage, msg_class(out[2])),
                      {"error": out[2], "text": text[:400], "flags": flags, "where": info.get("where"), "stack_depth": info.get("stack_depth")}))
    elif kind == "ImportError":
        if not ((flags.get("autoload") or entry == "runstr") and uses_pulse_import(text)):  # run_jaqal_string always loads
            fails.append(("unexpected-ImportError:" + msg_class(out[2]), {"error": out[2], "text": text[:300]}))
    elif kind == "JaqalParseError":
        info["pos_checked"] = True
        if not check_position(text, out[1]):
            fails.append(("parse-error-position", {"reported": out[1], "message": out[2], "text": text[:300]}))
    if entry == "sexpr" and not fails:
        # what an entry point reports does not depend on an option that only adds to what it returns: the S-expression and
        # the header-only entry points with and without return_usepulses
        info["option_pairs"] = 0
        for a, b in (("sexpr", "sexpr+usepulses"), ("header", "header+usepulses")):
            oa = out if a == "sexpr" else call(a, text, flags)[0]
            ob = call(b, text, flags)[0]
            info["option_pairs"] += 1
            for nm, o_ in ((a, oa), (b, ob)):
                if o_[0].startswith("other:") or o_[0] == "budget":
                    fails.append(("wrong-exception:%s:%s" % (o_[0], nm), {"error": o_[2], "text": text[:300]}))
                elif o_[0] == "JaqalParseError" and nm != "sexpr" and not check_position(text, o_[1]):
                    fails.append(("parse-error-position:" + nm, {"reported": o_[1], "message": o_[2], "text": text[:300]}))
            if (oa[0], oa[1]) != (ob[0], ob[1]):
                fails.append(("outcome-depends-on-return_usepulses:" + a, {"without": oa[:2], "with": ob[:2], "text": text[:300]}))
        # a text the S-expression entry point refuses for its syntax is refused by the full parser as well
    return out, fails, info


def process(ctx, case, cls):
    rec = ctx.rec
    out, fails, info = judge(case)
    text = case["text"]
    ntok = len(text.split())
    ill = first_illegal(text) is not None
    rec.case([text, case["entry"], sorted((case.get("flags") or {}).items())], nontrivial=ntok >= 3 or ill)
    rec.count("calls")
    rec.count("class:" + cls)
    rec.count("entry:" + case["entry"])
    rec.count("entry-points-compared-with-and-without-return_usepulses", info.get("option_pairs", 0))
    rec.count("outcome:" + out[0].split(":")[0])
    if ill:
        rec.count("illegal-character-texts")
    if info.get("pos_checked"):
        rec.count("position-checked")
    if info.get("ran"):
        rec.count("emulations-run")
    rec.maximum("max_steps_over_budget", round(info["steps"] / info["budget"], 4))
    for clause, detail in fails:
        rec.violation(sig("C16", clause), detail, case)
    return out


def random_text(rng):
    n = rng.choice([1, 2, 3, 5, 8, 13, 21, 40])
    parts = [rng.choice(ALPH) for _ in range(n)]
    sep = rng.choice(["", " ", " "])
    s = sep.join(parts)
    if rng.random() < 0.03:
        s += " q" * rng.choice([500, 3000])
    return s


def random_flags(rng):
    f = {}
    for k in ("expand_macro", "expand_let", "expand_let_map", "return_usepulses"):
        if rng.random() < 0.35:
            f[k] = True
    if rng.random() < 0.4:
        f["native"] = True
    if rng.random() < 0.15:
        f["autoload"] = True
    return f


def entries_for(rng, text):
    out = [("sexpr", None)]
    out.append(("parse", random_flags(rng)))
    out.append(("run", {"native": True, "shared_backend": True} if rng.random() < 0.5 else {"native": True}))
    if rng.random() < 0.2:
        out.append(("run", {}))  # a circuit parsed without any gate set handed to the emulator
    if rng.random() < 0.3:
        out.append(("runstr", {"native": True}))  # run_jaqal_string: text in, result or error out
    return out


# ---------------------------------------------------------------------------------------
# histories in fresh interpreter processes
# ---------------------------------------------------------------------------------------

CHILD = r'''
import json, sys, hashlib
spec = json.load(sys.stdin)
if spec.get("preimport_importlib_util"):
    import importlib.util
from vf.props import c16
from vf import fingerprint
out = []
def gfp():
    return hashlib.sha1(repr(fingerprint.fp_global()).encode()).hexdigest()[:12]
for text, entry, flags in spec.get("warmup", []):
    c16.call(entry, text, flags)
base = gfp()
for text, entry, flags in spec["steps"]:
    o, info = c16.call(entry, text, flags)
    out.append({"outcome": [o[0], o[1], (o[2] or "")[:300]], "gfp": gfp()})
json.dump({"base": base, "steps": out, "importlib_util_preloaded": "importlib.util" in sys.modules}, sys.stdout)
'''


def run_child(spec, timeout=120):
    env = dict(os.environ)
    p = subprocess.run([sys.executable, "-c", CHILD], input=json.dumps(spec), capture_output=True, text=True, timeout=timeout,
                       cwd=harness.ROOT, env=env)
    if p.returncode != 0:
        return None, p.stderr[-1500:]
    try:
        return json.loads(p.stdout), None
    except Exception as ex:
        return None, "bad child output: %s %s" % (ex, p.stdout[-300:])


WARM = [("register q[1]\nprepare_all\nX q[0]\nmeasure_all\n", e, f) for e, f in
        (("sexpr", None), ("parse", {"expand_macro": True, "expand_let_map": True}), ("run", {"native": True}))] + \
       [("register q[", "parse", {}), ("register q[1]\n@", "parse", {})]


def histories(ctx, pool):
    rec = ctx.rec
    rng = ctx.rng
    nhist = 2 if ctx.quick else 6
    per_text = {}
    for h in range(nhist):
        steps = []
        idx = [rng.randrange(len(pool)) for _ in range(60 if ctx.quick else 150)]
        # make sure texts repeat within the history
        idx += idx[: len(idx) // 2]
        rng.shuffle(idx)
        if h % 2 == 1:
            # a process whose *first* call fails
            bad = [i for i, (t, e, f) in enumerate(pool) if "@" in t or t.endswith("[")]
            if bad:
                idx.insert(0, bad[0])
        steps = [pool[i] for i in idx]
        res, err = run_child({"warmup": WARM if h % 2 == 0 else [], "steps": steps})
        if res is None:
            rec.inconc("history child failed: %s" % err)
            continue
        rec.count("histories")
        seen_here = {}
        base = None
        for k, (i, st) in enumerate(zip(idx, res["steps"])):
            rec.count("history-steps")
            key = json.dumps(pool[i])
            o = json.dumps(st["outcome"])
            if key in seen_here and seen_here[key] != o:
                rec.violation(sig("C16", "sticky-state:outcome-depends-on-history"),
                              {"text": pool[i][0][:300], "entry": pool[i][1], "first": seen_here[key], "later": o, "position": k},
                              {"kind": "history", "steps": steps[: k + 1]})
            seen_here.setdefault(key, o)
            if key in per_text and per_text[key] != o:
                rec.violation(sig("C16", "sticky-state:outcome-differs-between-histories"),
                              {"text": pool[i][0][:300], "a": per_text[key], "b": o}, {"kind": "history", "steps": steps[: k + 1]})
            per_text.setdefault(key, o)
            if h % 2 == 0:
                if st["gfp"] != res["base"]:
                    rec.violation(sig("C16", "sticky-state:global-fingerprint-changed"),
                                  {"after_text": pool[i][0][:300], "entry": pool[i][1], "position": k},
                                  {"kind": "history", "steps": steps[: k + 1]})
                    break
        rec.count("global-fingerprints-compared", len(res["steps"]) if h % 2 == 0 else 0)
    # single-text fresh processes
    for i in rng.sample(range(len(pool)), min(len(pool), 4 if ctx.quick else 16)):
        res, err = run_child({"warmup": [], "steps": [pool[i]]})
        if res is None:
            rec.inconc("single-text child failed: %s" % err)
            continue
        rec.count("fresh-single-text-runs")
        key = json.dumps(pool[i])
        o = json.dumps(res["steps"][0]["outcome"])
        if key in per_text and per_text[key] != o:
            rec.violation(sig("C16", "sticky-state:fresh-process-differs-from-history"),
                          {"text": pool[i][0][:300], "entry": pool[i][1], "fresh": o, "in_history": per_text[key]},
                          {"kind": "history", "steps": [pool[i]]})


SCRATCH_MOD = '''
from jaqalpaq.core import GateDefinition, Parameter, ParamType
from jaqalpaq.core.gatedef import BusyGateDefinition
class jaqal_gates:
    ALL_GATES = {
        "prepare_all": BusyGateDefinition("prepare_all"),
        "measure_all": BusyGateDefinition("measure_all"),
        "Foo": GateDefinition("Foo", [Parameter("q", ParamType.QUBIT)]),
    }
'''


def relative_import_probe(ctx):
    rec = ctx.rec
    d = os.path.join(harness.ROOT, ".scratch", "pulses", "c16-%d-%d" % (os.getpid(), ctx.index))
    os.makedirs(d, exist_ok=True)
    try:
        with open(os.path.join(d, "vfscratchmod.py"), "w") as fd:
            fd.write(SCRATCH_MOD)
        text = "from .vfscratchmod usepulses *\nregister q[1]\nprepare_all\nFoo q[0]\nmeasure_all\n"
        child = CHILD.replace('c16.call(entry, text, flags)', 'c16.call_import(text, %r)' % d)
        outs = {}
        for pre in (False, True):
            env = dict(os.environ)
            p = subprocess.run([sys.executable, "-c", child], input=json.dumps({"steps": [(text, "parse", {})],
                                                                                 "preimport_importlib_util": pre}),
                               capture_output=True, text=True, timeout=120, cwd=harness.ROOT, env=env)
            if p.returncode != 0:
                rec.inconc("relative import child failed: " + p.stderr[-500:])
                return
            outs[pre] = json.loads(p.stdout)
        rec.count("relative-import-probes")
        a = outs[False]["steps"][0]["outcome"]
        b = outs[True]["steps"][0]["outcome"]
        rec.note("relative_import", {"fresh": a, "importlib.util preloaded": b,
                                     "importlib.util in sys.modules of fresh child": outs[False]["importlib_util_preloaded"]})
        for pre, o in ((False, a), (True, b)):
            if o[0].startswith("other:"):
                rec.violation(sig("C16", "wrong-exception:%s:relative-pulse-import:%s" % (o[0][6:], msg_class(o[2]))),
                              {"outcome": o, "importlib.util preloaded": pre}, {"kind": "import", "text": text})
            elif o[0] != "ok":
                rec.violation(sig("C16", "relative-pulse-import-of-existing-module-failed:" + o[0]),
                              {"outcome": o, "importlib.util preloaded": pre}, {"kind": "import", "text": text})
        if a != b:
            rec.violation(sig("C16", "sticky-state:relative-import-depends-on-earlier-imports"), {"fresh": a, "preloaded": b},
                          {"kind": "import", "text": text})
        # a name that exists as a plain directory (no __init__.py): not a module, the usual import failure
        os.makedirs(os.path.join(d, "vfplaindir"), exist_ok=True)
        o, _info = call_import("from .vfplaindir usepulses *\nregister q[1]\n", d)
        rec.count("relative-import-probes")
        if o[0] not in ("ImportError", "JaqalError", "JaqalParseError"):
            rec.violation(sig("C16", "wrong-exception:%s:relative-pulse-import-of-a-plain-directory" % o[0].replace("other:", "")),
                          {"outcome": list(o)}, {"kind": "import", "text": "from .vfplaindir usepulses *"})
        # the caller's own gate dictionary (inject_pulses) is the caller's: importing a pulse module must not write into it
        mine = dict(X.native())
        before = list(mine.items())
        lib.outcome(lib.parse, text, mine, autoload_pulses=True, import_path=d)
        lib.outcome(lib.parse, text + "Nope q[0]\n", mine, autoload_pulses=True, import_path=d)
        rec.count("relative-import-probes")
        if list(mine.items()) != before:
            rec.violation(sig("C16", "sticky-state:callers-inject_pulses-dictionary-modified"),
                          {"added": sorted(set(mine) - {k for k, _ in before}), "removed": sorted({k for k, _ in before} - set(mine))},
                          {"kind": "import", "text": text})
        minimal_import_probe(rec, d, text)
        fs_history_probe(rec, d, text)
        # history: absolute import of the same name before and after a relative import of it
        abs_text = "from vfscratchmod usepulses *\nregister q[1]\nprepare_all\nFoo q[0]\nmeasure_all\n"
        p = subprocess.run([sys.executable, "-c", child], input=json.dumps({"steps": [(abs_text, "parse", {}), (text, "parse", {}),
                                                                                  (abs_text, "parse", {}), (text, "parse", {})]}),
                           capture_output=True, text=True, timeout=120, cwd=harness.ROOT, env=dict(os.environ))
        if p.returncode != 0:
            rec.inconc("relative/absolute import history child failed: " + p.stderr[-500:])
            return
        hs = [x["outcome"] for x in json.loads(p.stdout)["steps"]]
        rec.count("relative-import-probes")
        rec.note("absolute_relative_import_history", hs)
        if hs[0][0] != hs[2][0]:
            rec.violation(sig("C16", "sticky-state:absolute-pulse-import-depends-on-earlier-relative-import"),
                          {"absolute before": hs[0], "absolute after relative import": hs[2]}, {"kind": "import", "text": abs_text})
        if hs[1] != hs[3]:
            rec.violation(sig("C16", "sticky-state:relative-pulse-import-not-repeatable"), {"first": hs[1], "second": hs[3]},
                          {"kind": "import", "text": text})
    finally:
        import shutil

        shutil.rmtree(d, ignore_errors=True)


MINIMAL_IMPORT_CHILD = r'''
import sys, json
spec = json.load(sys.stdin)
from jaqalpaq.parser import parse_jaqal_string
from jaqalpaq.error import JaqalError
pre = "importlib.util" in sys.modules
try:
    parse_jaqal_string(spec["text"], autoload_pulses=True, import_path=spec["path"])
    out = ["ok", ""]
except JaqalError as ex:
    out = ["JaqalError", str(ex)[:200]]
except ImportError as ex:
    out = ["ImportError", str(ex)[:200]]
except Exception as ex:
    out = ["other:" + type(ex).__name__, str(ex)[:200]]
json.dump({"outcome": out, "importlib_util_preloaded": pre}, sys.stdout)
'''


FS_HISTORY_CHILD = r'''
import sys, json, os
spec = json.load(sys.stdin)
from jaqalpaq.parser import parse_jaqal_string
from jaqalpaq.error import JaqalError
d, text, mod_a, mod_b = spec["path"], spec["text"], spec["mod_a"], spec["mod_b"]
path = os.path.join(d, "vfscratchmod.py")
def attempt():
    try:
        c = parse_jaqal_string(text, autoload_pulses=True, import_path=d)
        return ["ok", sorted(c.native_gates)]
    except JaqalError as ex:
        return ["JaqalError", str(ex)[:120]]
    except ImportError as ex:
        return ["ImportError", str(ex)[:120]]
    except Exception as ex:
        return ["other:" + type(ex).__name__, str(ex)[:120]]
out = {}
open(path, "w").write(mod_a); out["module A present"] = attempt()
os.remove(path); out["module removed"] = attempt()
open(path, "w").write(mod_b); out["module B (no gate Foo) present"] = attempt()
open(path, "w").write(mod_a); out["module A again"] = attempt()
# the directory the module is looked up in is not there (any more), or is not a directory
keep = d
d = os.path.join(keep, "no-such-directory"); out["search directory missing"] = attempt()
d = path; out["search path is a file"] = attempt()
d = keep; out["module A after the missing directory"] = attempt()
json.dump(out, sys.stdout)
'''


LAYOUT_CHILD = r'''
import sys, json, os
sys.dont_write_bytecode = True
spec = json.load(sys.stdin)
root = spec["root"]
site, project = os.path.join(root, "site"), os.path.join(root, "project")
GATES = "from jaqalpaq.core import GateDefinition, Parameter, ParamType\nALL_GATES = {'%s': GateDefinition('%s', [Parameter('q', ParamType.QUBIT)])}\n"
CLS = "from jaqalpaq.core import GateDefinition, Parameter, ParamType\nclass jaqal_gates:\n    ALL_GATES = {'%s': GateDefinition('%s', [Parameter('q', ParamType.QUBIT)])}\n"
def put(path, text):
    os.makedirs(os.path.dirname(path), exist_ok=True)
    open(path, "w").write(text)
for base, gate in ((site, "Sitegate"), (project, "Localgate")):
    put(os.path.join(base, "vfpk", "__init__.py"), "")                        # a package, gates in a submodule
    put(os.path.join(base, "vfpk", "jaqal_gates.py"), GATES % (gate, gate))
    put(os.path.join(base, "vfmd.py"), CLS % (gate, gate))                     # a single file, gates in a class
    put(os.path.join(base, "vfat", "__init__.py"), "from . import jaqal_gates\n")  # a package that imports its gates itself
    put(os.path.join(base, "vfat", "jaqal_gates.py"), GATES % (gate, gate))
put(os.path.join(site, "vfbr", "__init__.py"), "")
put(os.path.join(site, "vfbr", "jaqal_gates.py"), GATES % ("Sitegate", "Sitegate"))
put(os.path.join(project, "vfbr.py"), "import vf_helper_module_that_is_not_installed\n" + CLS % ("Localgate", "Localgate"))
put(os.path.join(project, "vfbp", "__init__.py"), "")                          # local package whose gate module cannot be loaded
put(os.path.join(project, "vfbp", "jaqal_gates.py"), "import vf_helper_module_that_is_not_installed\n")
put(os.path.join(site, "vfbp.py"), CLS % ("Sitegate", "Sitegate"))
sys.path.insert(0, site)
from jaqalpaq.parser import parse_jaqal_string
from jaqalpaq.error import JaqalError
def attempt(name, relative):
    if name == "vfgood":
        # an ordinary program with the caller's own gate definitions: it works whatever was imported (or not found) before
        from jaqalpaq.core import GateDefinition, Parameter, ParamType
        try:
            c = parse_jaqal_string("register q[1]\nGG q[0]\n", inject_pulses={"GG": GateDefinition("GG", [Parameter("q", ParamType.QUBIT)])}, autoload_pulses=False)
            return ["ok", sorted(c.native_gates)]
        except Exception as ex:
            return ["other:" + type(ex).__name__, str(ex)[:100]]
    text = "from %s%s usepulses *\nregister q[1]\n" % ("." if relative else "", name)
    try:
        c = parse_jaqal_string(text, autoload_pulses=True, import_path=project)
        return ["ok", sorted(c.native_gates)]
    except JaqalError as ex:
        return ["JaqalError", str(ex)[:100]]
    except ImportError as ex:
        return ["ImportError", ""]
    except Exception as ex:
        return ["other:" + type(ex).__name__, str(ex)[:100]]
json.dump([attempt(n, r) for n, r in spec["steps"]], sys.stdout)
'''


def import_layout_probe(ctx):
    """Pulse modules in every layout the importer knows (single file with a jaqal_gates class, package with a jaqal_gates
    submodule, package that imports its gates itself), one copy beside the program (relative import) and a different one
    on the Python path (absolute import), plus local modules that fail while loading: whatever was imported before, each
    import gives what it gives in a fresh process -- the local gates, the installed gates, or ImportError."""
    import shutil

    rec, rng = ctx.rec, ctx.rng
    root = os.path.join(harness.ROOT, ".scratch", "pulses", "c16-layout-%d-%d" % (os.getpid(), ctx.index))
    env = dict(os.environ)
    env["PYTHONPATH"] = os.path.join(harness.REPO, "src")

    def run(steps):
        shutil.rmtree(root, ignore_errors=True)
        p = subprocess.run([sys.executable, "-c", LAYOUT_CHILD], input=json.dumps({"root": root, "steps": steps}),
                           capture_output=True, text=True, timeout=120, env=env)
        if p.returncode != 0:
            rec.inconc("import layout child failed: " + p.stderr[-400:])
            return None
        return json.loads(p.stdout)

    try:
        kinds = [(n, r) for n in ("vfpk", "vfmd", "vfat", "vfbr", "vfbp") for r in (True, False)]
        # a relative import of a name that an already imported package carries (and no local module does), and an ordinary
        # program with the caller's own gates
        kinds += [("jaqalpaq", True), ("json", True), ("vfgood", False)]
        fresh = {}
        for k in kinds:
            out = run([k])
            if out is None:
                return
            fresh[k] = out[0]
            rec.count("import-layout-steps")
        rec.note("import_layouts_fresh_process", {"%s%s" % ("." if r else "", n): v for (n, r), v in fresh.items()})
        want = {("vfpk", True): ["ok", ["Localgate"]], ("vfpk", False): ["ok", ["Sitegate"]], ("vfmd", True): ["ok", ["Localgate"]],
                ("vfmd", False): ["ok", ["Sitegate"]], ("vfat", True): ["ok", ["Localgate"]], ("vfat", False): ["ok", ["Sitegate"]],
                ("vfbr", True): ["ImportError", ""], ("vfbr", False): ["ok", ["Sitegate"]],
                ("vfbp", True): ["ImportError", ""], ("vfbp", False): ["ok", ["Sitegate"]],
                ("jaqalpaq", True): ["ImportError", ""], ("json", True): ["ImportError", ""], ("vfgood", False): ["ok", ["GG"]]}
        for k, v in fresh.items():
            if v != want[k]:
                rec.violation(sig("C16", "pulse-import:%s:%s-import-of-%s" % (
                    "wrong-exception:" + v[0][6:] if v[0].startswith("other:") else "wrong-module-or-outcome", "relative" if k[1] else "absolute",
                    {"vfpk": "package", "vfmd": "single-file-module", "vfat": "package-importing-its-gates", "vfbr": "module-that-fails-to-load",
                     "vfbp": "package-whose-gates-fail-to-load", "jaqalpaq": "name-of-an-imported-package", "json": "name-of-an-imported-package",
                     "vfgood": "no-import-at-all"}[k[0]])), {"got": v, "expected": want[k]}, {"kind": "import", "steps": [list(k)]})
        names = ("vfpk", "vfmd", "vfat", "vfbr", "vfbp")
        fixed = [[(n, True), (n, False), (n, True), (n, False)] for n in names] + [[(n, False), (n, True), (n, False), (n, True)] for n in names]
        fixed += [[("vfgood", False), ("jaqalpaq", True), ("vfgood", False), ("vfmd", True), ("vfgood", False)],
                  [("vfmd", False), ("json", True), ("vfgood", False), ("vfmd", False)]]
        nrand = 6 if ctx.quick else 40
        for h in range(len(fixed) + nrand):
            # every name relative-then-absolute and absolute-then-relative, then random interleavings of all of them
            steps = fixed[h] if h < len(fixed) else [rng.choice(kinds) for _ in range(rng.randint(4, 9))]
            out = run(steps)
            if out is None:
                return
            rec.count("import-layout-histories")
            for i, (k, v) in enumerate(zip(steps, out)):
                rec.count("import-layout-steps")
                if v != fresh[k]:
                    rec.violation(sig("C16", "sticky-state:pulse-import-depends-on-earlier-imports:%s-after-%s" % (
                        ("relative" if k[1] else "absolute"), "+".join(sorted({("relative" if r else "absolute") for _n, r in steps[:i]})) or "nothing")),
                        {"step": list(k), "fresh": fresh[k], "in_history": v, "history": [list(x) for x in steps[:i + 1]]},
                        {"kind": "import", "steps": [list(x) for x in steps[:i + 1]]})
                    break
    finally:
        shutil.rmtree(root, ignore_errors=True)


def fs_history_probe(rec, d, text):
    """The module named by a relative pulse import is removed / replaced between calls: the
    outcome must follow the file system (ImportError when it is gone), never an earlier load."""
    env = dict(os.environ)
    env["PYTHONPATH"] = os.path.join(harness.REPO, "src")
    mod_b = SCRATCH_MOD.replace('"Foo"', '"Bar"')
    p = subprocess.run([sys.executable, "-c", FS_HISTORY_CHILD],
                       input=json.dumps({"text": text, "path": d, "mod_a": SCRATCH_MOD, "mod_b": mod_b}),
                       capture_output=True, text=True, timeout=120, env=env)
    if p.returncode != 0:
        rec.inconc("file-system history child failed: " + p.stderr[-400:])
        return
    r = json.loads(p.stdout)
    rec.count("relative-import-probes")
    rec.note("relative_import_file_system_history", r)
    case = {"kind": "import", "text": text}
    if r["module A present"][0] != "ok" or r["module A again"][0] != "ok":
        rec.violation(sig("C16", "relative-pulse-import-of-existing-module-failed"), r, case)
    if r["module removed"][0] != "ImportError":
        rec.violation(sig("C16", "missing-pulse-module-not-reported:" + r["module removed"][0]), r, case)
    for k in ("search directory missing", "search path is a file"):
        if r[k][0] != "ImportError":
            rec.violation(sig("C16", "missing-pulse-module-not-reported:%s:%s" % (r[k][0].replace("other:", ""), k.replace(" ", "-"))), r, case)
    if r["module A after the missing directory"][0] != "ok":
        rec.violation(sig("C16", "relative-pulse-import-of-existing-module-failed:after-a-missing-directory"), r, case)
    if r["module B (no gate Foo) present"][0] != "JaqalError":
        rec.violation(sig("C16", "replaced-pulse-module-not-reloaded:" + r["module B (no gate Foo) present"][0]), r, case)


def minimal_import_probe(rec, d, text):
    """The same relative pulse import in a process that has imported nothing but the parser."""
    env = dict(os.environ)
    env["PYTHONPATH"] = os.path.join(harness.REPO, "src")
    p = subprocess.run([sys.executable, "-c", MINIMAL_IMPORT_CHILD], input=json.dumps({"text": text, "path": d}),
                       capture_output=True, text=True, timeout=120, env=env)
    if p.returncode != 0:
        rec.inconc("minimal import child failed: " + p.stderr[-400:])
        return
    r = json.loads(p.stdout)
    rec.count("relative-import-probes")
    rec.note("relative_import_minimal_process", r)
    o = r["outcome"]
    if o[0].startswith("other:"):
        rec.violation(sig("C16", "wrong-exception:%s:relative-pulse-import-in-minimal-process:%s" % (o[0][6:], msg_class(o[1]))),
                      {"outcome": o, "importlib.util preloaded": r["importlib_util_preloaded"]}, {"kind": "import", "text": text})
    elif o[0] != "ok":
        rec.violation(sig("C16", "relative-pulse-import-of-existing-module-failed-in-minimal-process:" + o[0]),
                      {"outcome": o}, {"kind": "import", "text": text})


def call_import(text, path):
    """Used by the child: parse with auto-loaded pulses relative to `path`."""
    from jaqalpaq.error import JaqalError

    try:
        lib.parse(text, autoload_pulses=True, import_path=path)
        return ("ok", None, None), {}
    except JaqalError as ex:
        return ("JaqalError", None, str(ex)), {}
    except ImportError as ex:
        return ("ImportError", None, str(ex)), {}
    except Exception as ex:
        return ("other:" + type(ex).__name__, None, str(ex)[:200]), {}


# ---------------------------------------------------------------------------------------
# termination where logical steps cannot be counted: time spent inside one C-level call (a regular expression that
# backtracks).  Tiny inputs, one child process each, a wall-clock limit four orders of magnitude above the normal cost,
# a retry alone and a control input of the same size before anything is called a violation.
# ---------------------------------------------------------------------------------------
HANG_TEXTS = (
    [("unterminated-block-comment", "register q[1]\n/* " + "licence text " * k) for k in (1, 3, 8, 20)] +
    [("unterminated-block-comment-stars", "/*" + "* " * 40), ("unterminated-block-comment-stars", "/* " + "**" * 30 + " x"),
     ("comment-slashes", "X q[0] //" + "/" * 300), ("comment-star-slash-runs", "/*" + "/*" * 60),
     ("dotted-identifier", "a" + ".a" * 120 + ". x"), ("dotted-identifier", "from " + "a." * 100 + " usepulses *"),
     ("number-runs", "g " + "1" * 60 + "." + "e" * 3), ("number-runs", "g 1." + "1e" * 40), ("number-runs", "g " + "+-" * 60 + "1"),
     ("binary-literal", "g '" + "01" * 100), ("bracket-run", "<" * 300), ("bracket-run", "{" * 300 + "}" * 299),
     ("macro-doubling-chain", "register q[1]\nmacro m0 a { X a }\n" + "".join("macro m%d a { m%d a ; m%d a }\n" % (k, k - 1, k - 1) for k in range(1, 41))
      + "subcircuit { m40 q[0] }\n"),
     ("macro-doubling-chain", "register q[1]\nmacro m0 a { X a }\n" + "".join("macro m%d a { m%d a ; m%d a }\n" % (k, k - 1, k - 1) for k in range(1, 41))
      + "< m40 q[0] >\n"),
     ("bar-run", "< " + "| " * 300 + ">"), ("semicolon-run", ";" * 2000), ("newline-run", "\n" * 5000 + "@")])

HANG_CHILD = r"""
import sys, time
text = sys.stdin.read()
t0 = time.time()
from jaqalpaq.parser import parse_jaqal_string
from jaqalpaq.error import JaqalError
t1 = time.time()
try:
    parse_jaqal_string(text, autoload_pulses=False)
    out = "ok"
except JaqalError as ex:
    out = "jaqal " + type(ex).__name__
except BaseException as ex:
    out = "exc " + type(ex).__name__
print(out, round(time.time() - t1, 3))
"""


def _timed_parse(text, timeout):
    try:
        p = subprocess.run([sys.executable, "-c", HANG_CHILD], input=text, capture_output=True, text=True, timeout=timeout,
                           cwd=harness.ROOT, env=dict(os.environ))
    except subprocess.TimeoutExpired:
        return "timeout", None
    if p.returncode != 0:
        return "child-failed", p.stderr[-300:]
    w = p.stdout.split()
    return w[0], float(w[-1])


def hang_probe(ctx):
    rec = ctx.rec
    for kind, text in HANG_TEXTS:
        st, t = _timed_parse(text, 25)
        rec.count("hang-probes")
        if st == "child-failed":
            rec.inconc("hang probe child failed: %s" % t)
            continue
        if st != "timeout":
            rec.maximum("max_seconds_for_a_hang_probe", t)
            if st == "exc":
                rec.violation(sig("C16", "escaping-exception:hang-probe:" + kind), {"text": text[:200]}, {"kind": "hang", "text": text, "class": kind})
            continue
        # did not finish in 25 s: once more, alone, with a longer limit, and a harmless text of the same length as control
        st2, t2 = _timed_parse(text, 60)
        ctl, tc = _timed_parse("// " + "x" * len(text) + "\nregister q[1]\n", 60)
        if st2 == "timeout" and ctl in ("ok", "jaqal") and tc is not None and tc < 5:
            rec.violation(sig("C16", "does-not-terminate:" + kind),
                          {"characters": len(text), "limit_s": 60, "control_text_of_same_length_s": tc, "text": text[:200]},
                          {"kind": "hang", "text": text, "class": kind})
        else:
            rec.inconc("hang probe %s timed out once (retry: %s, control: %s %s)" % (kind, st2, ctl, tc))


def shard(ctx):
    rec = ctx.rec
    rng = ctx.rng
    monitors.install_contracts()
    if ctx.index == ctx.nshards - 1:
        hang_probe(ctx)
    pool = []
    # templates
    for j, t in enumerate(TEMPLATES):
        if not ctx.mine(j):
            continue
        for entry, flags in (("sexpr", None), ("parse", {}), ("parse", {"native": True, "expand_macro": True, "expand_let_map": True}),
                             ("run", {"native": True}), ("run", {}), ("parse", {"autoload": True})):
            process(ctx, {"text": t, "entry": entry, "flags": flags}, "template")
        pool.append((t, "run", {"native": True}))
    n = ctx.scale(1500, 60000)
    i = 0
    while i < n and not rec.expired() and rec.time_left() > (rec.deadline - rec.t0) * 0.35:
        i += 1
        # random strings
        for _ in range(3):
            t = random_text(rng)
            for entry, flags in entries_for(rng, t):
                process(ctx, {"text": t, "entry": entry, "flags": flags}, "random")
        # truncations and mutants of a valid program
        exe = rng.random() < 0.5
        g = (gen.ExecGen(rng, reg_size=(1, 3), max_depth=2, body_len=(1, 2)) if exe else
             gen.ProgGen(rng, max_depth=3, p_hostile_names=0.1))
        prog = g.program()
        text = sx.to_text(prog, random.Random(rng.randrange(1 << 30)) if rng.random() < 0.5 else None)
        step = 3 if ctx.quick else 1
        start = rng.randrange(step)
        for cut in range(start, len(text), step):
            t = text[:cut]
            entry, flags = rng.choice([("sexpr", None), ("parse", random_flags(rng)), ("run", {"native": True})])
            process(ctx, {"text": t, "entry": entry, "flags": flags}, "truncation")
        toks = text.replace("\n", " \n ").split(" ")
        for _ in range(8):
            t2 = list(toks)
            k = rng.randrange(len(t2)) if t2 else 0
            r = rng.random()
            if r < 0.3 and t2:
                del t2[k]
            elif r < 0.6 and t2:
                t2[k] = rng.choice(ALPH)
            elif r < 0.8:
                t2.insert(k, rng.choice(ALPH))
            elif len(t2) > 1:
                k2 = rng.randrange(len(t2))
                t2[k], t2[k2] = t2[k2], t2[k]
            t = " ".join(t2)
            for entry, flags in entries_for(rng, t):
                process(ctx, {"text": t, "entry": entry, "flags": flags}, "mutant")
            if len(pool) < 40 and rng.random() < 0.3:
                pool.append((t, "run", {"native": True}))
        if len(pool) < 40:
            pool.append((text, "run", {"native": True}))
            pool.append((text[: len(text) // 2], "parse", {}))
            pool.append((text + " @", "parse", {"native": True}))
        if i <= 2:
            rec.sample({"random": random_text(rng)[:120], "truncation": text[: len(text) // 3]})
    histories(ctx, pool)
    if ctx.index == 0:
        relative_import_probe(ctx)
    if ctx.index in (3 % ctx.nshards, 5 % ctx.nshards):
        import_layout_probe(ctx)
    if ctx.index == 2 % ctx.nshards:
        # the same two texts, one legal and one not, parsed alternately many times in one process: whatever the parser
        # remembers about objects of an earlier parse (their ids are reused once they are freed) must not change a verdict
        pairs = [
            ("register q[2]\nmacro in a { subcircuit { X a } }\nmacro out a { in a }\n< out q[0] | X q[1] >\n",
             "register q[2]\nmacro in a { X a }\nmacro out a { in a }\nprepare_all\n< out q[0] | X q[1] >\nmeasure_all\n"),
            ("register q[2]\nmacro f a { X a }\nmacro g a b { f a ; f b }\nprepare_all\ng q[0] q[2]\nmeasure_all\n",
             "register q[2]\nmacro f a { X a }\nmacro g a b { f a ; f b }\nprepare_all\ng q[0] q[1]\nmeasure_all\n"),
        ]
        for bad, good in pairs:
            first = {}
            for k in range(120):
                for tag, t in (("refused", bad), ("accepted", good)):
                    o, info = call("run", t, {"native": True})
                    rec.count("alternating-twin-parses")
                    first.setdefault(tag, o[0])
                    if o[0] != first[tag]:
                        rec.violation(sig("C16", "sticky-state:verdict-changes-when-two-texts-alternate"),
                                      {"text": t, "first": first[tag], "round": k, "now": list(o)[:3]}, {"kind": "alternate", "texts": [bad, good]})
                        break
                else:
                    continue
                break
    if ctx.index == 1 % ctx.nshards:
        # nestings close to the interpreter's recursion limit, entered from callers whose own stack is already deep:
        # whichever pass runs out of stack, what comes out is a JaqalError (or a result)
        for d in range(90, 176, 5):
            t = "register q[1]\nprepare_all\n" + "{<" * d + "X q[0]" + ">}" * d + "\nmeasure_all\n"
            for k in (0, 150, 300, 450):
                process(ctx, {"text": t, "entry": "run", "flags": {"native": True, "stack": k}}, "deep-nesting-from-deep-stack")
    monitors.report_contracts(rec)


def replay(ctx, case):
    if case.get("kind") == "hang":
        st, t = _timed_parse(case["text"], 60)
        if st == "timeout":
            ctx.rec.violation(sig("C16", "does-not-terminate:" + case.get("class", "")), {"characters": len(case["text"]), "limit_s": 60}, case)
        return
    if case.get("kind") == "alternate":
        bad, good = case["texts"]
        first = {}
        for k in range(200):
            for tag, t in (("refused", bad), ("accepted", good)):
                o, info = call("run", t, {"native": True})
                first.setdefault(tag, o[0])
                if o[0] != first[tag]:
                    ctx.rec.violation(sig("C16", "sticky-state:verdict-changes-when-two-texts-alternate"), {"text": t, "round": k}, case)
                    return
        return
    if case.get("kind") in ("history", "import"):
        print("replay of process-level histories is done by re-running the check; steps are in the replay file")
        return
    out, fails, info = judge(case)
    for clause, detail in fails:
        ctx.rec.violation(sig("C16", clause), detail, case)
