"""C18 -- gate definitions check calls; idle and stretched variants act as specified."""
import itertools

import numpy as np

from .. import lib, monitors, gateset, gateset_sig
from .common import sig
from . import execcommon as X

RULE = ("(a) exhaustive: every signature of length 0-3 over {QUBIT, REGISTER, INT, FLOAT, NONE} x every argument list drawn "
        "from the value classes {qubit, register, int, integral float, non-integral float, INT constant, integral FLOAT constant, "
        "non-integral FLOAT constant, parameters of kind QUBIT/REGISTER/INT/FLOAT/NONE} at every position, with arities n-1, n, "
        "n+1, called positionally and by keyword; acceptance compared with the kind table of the property statement; (b) every "
        "gate of the harness native set through add_idle_gates (sets in different orders) and stretched_gates(suffix=...) "
        "(sets with and without idle gates): signature, used qubits, effect on the emulated state, ideal unitary for sampled "
        "stretch factors. non-trivial = arity >= 1; distinct = (signature, argument classes, call style)")
ASSUMPTIONS = ["for Parameter-valued arguments only unambiguous cases are judged: a FLOAT parameter given to an INT parameter is "
               "not judged for acceptance (it may hold an integral value) but a rejection must still be a JaqalError"]
TIERS = {"quick": {"shards": 8, "budget_s": 80}, "thorough": {"shards": 16, "budget_s": 240}}
REQUIRE = {"calls-on-a-definition-used-before": 20000, "definitions-used-before-variants-were-derived": 20, "calls-judged": 20000, "accepted": 2000, "rejected": 5000, "keyword-vs-positional": 5000, "idle-gates-checked": 20,
           "stretched-gates-checked": 15, "stretched-gates-checked:gate-model-A": 15, "stretched-gates-checked:gate-model-B": 15, "stretched_gates-calls-with-update": 6, "stretched-idle-gates-with-custom-names": 20, "stretch-factors-sampled": 100}

KINDS = ["QUBIT", "REGISTER", "INT", "FLOAT", "NONE"]
VALUE_CLASSES = ["qubit", "register", "int", "intfloat", "float", "constI", "constFint", "constF", "pQ", "pR", "pI", "pF", "pN",
                 "inf", "nan", "hugefloat", "constFinf", "npint", "npfloat", "npintfloat", "zero", "zerofloat", "none",
                 "constCint", "constCintf", "constCfrac", "fracint", "frac", "hugefracint", "hugefrac", "hugeint", "complex", "npcomplex",
                 "tupleq", "tuple1", "emptylist"]


def make_values():
    from jaqalpaq.core import Register, Constant, Parameter, ParamType

    reg = Register("r", 3)
    return {
        "qubit": reg[1], "register": reg, "int": 2, "intfloat": 2.0, "float": 0.5, "constI": Constant("ci", 3),
        "constFint": Constant("cfi", 2.0), "constF": Constant("cf", 0.25),
        "pQ": Parameter("pq", ParamType.QUBIT), "pR": Parameter("pr", ParamType.REGISTER), "pI": Parameter("pi", ParamType.INT),
        "pF": Parameter("pf", ParamType.FLOAT), "pN": Parameter("pn", None),
        # non-finite floats are no integers; a huge finite float is integral
        "inf": float("-inf"), "nan": float("nan"), "hugefloat": 1e300, "constFinf": Constant("cinf", float("inf")),
        # numbers as numpy delivers them: the same integers and floats
        # values that are false in a truth test (a call must not mistake them for "no argument given")
        "zero": 0, "zerofloat": 0.0, "none": None,
        # a constant defined through another constant has the number of that one
        "constCint": Constant("cci", Constant("cci0", 3)), "constCintf": Constant("ccif", Constant("ccif0", 2.0)),
        "constCfrac": Constant("ccf", Constant("ccf0", 2.5)),
        # real numbers that are neither int nor float, and integers beyond the range of a float
        "fracint": __import__("fractions").Fraction(4, 2), "frac": __import__("fractions").Fraction(5, 2),
        "hugefracint": __import__("fractions").Fraction(10 ** 400, 1), "hugefrac": __import__("fractions").Fraction(10 ** 400, 3),
        "hugeint": 2 ** 1024,
        # numbers that are no real numbers
        "complex": 0.5 + 0j, "npcomplex": __import__("numpy").complex128(2),
        # ONE argument that is a sequence: it is one argument (never the argument list), and no qubit, register or number
        "tupleq": (reg[0], reg[2]), "tuple1": (5,), "emptylist": [],
        "npint": __import__("numpy").int64(3), "npfloat": __import__("numpy").float64(0.25), "npintfloat": __import__("numpy").float32(2.0),
    }


def fits(kind, vc):
    """True / False / None (not judged) per the property's kind table."""
    if kind == "NONE":
        return True
    if vc == "none":
        return None  # None for a typed parameter: the statement does not say
    if kind == "QUBIT":
        return vc in ("qubit", "pQ", "pN")
    if kind == "REGISTER":
        return vc in ("register", "pR", "pN")
    if kind == "INT":
        if vc == "pF":
            return None
        return vc in ("int", "intfloat", "hugefloat", "constI", "constFint", "pI", "pN", "npint", "npintfloat", "zero", "zerofloat", "constCint", "constCintf", "fracint", "hugefracint", "hugeint")
    if kind == "FLOAT":
        if vc in ("inf", "nan", "constFinf", "hugefracint", "hugefrac", "hugeint"):
            return None  # floats, but not finite numbers -- or numbers no float can hold: the statement does not say
        if vc in ("fracint", "frac"):
            return True
        return vc in ("int", "intfloat", "hugefloat", "float", "constI", "constFint", "constF", "pI", "pF", "pN", "npint", "npfloat", "npintfloat", "zero", "zerofloat", "constCint", "constCintf", "constCfrac")
    raise ValueError(kind)


def try_call(gd, args=None, kwargs=None):
    from jaqalpaq.error import JaqalError

    try:
        st = gd(*(args or ()), **(kwargs or {}))
        return ("ok", st)
    except JaqalError as ex:
        return ("jaqal", str(ex))
    except Exception as ex:
        return ("exc", type(ex).__name__, str(ex)[:150])


_SHARED_DEFS = {}


def judge_call(case, values):
    from jaqalpaq.core import GateDefinition, Parameter, ParamType

    sigk = case["signature"]
    vcs = case["args"]
    if case.get("shared"):
        # one definition object per signature for the whole run: what it accepted before must not matter now
        key = tuple(sigk)
        if key not in _SHARED_DEFS:
            ps = [Parameter("p%d" % i, None if k == "NONE" else getattr(ParamType, k)) for i, k in enumerate(sigk)]
            _SHARED_DEFS[key] = (ps, GateDefinition("G", ps))
        params, gd = _SHARED_DEFS[key]
    else:
        params = [Parameter("p%d" % i, None if k == "NONE" else getattr(ParamType, k)) for i, k in enumerate(sigk)]
        gd = GateDefinition("G", params)
    args = [values[v] for v in vcs]
    names = [p.name for p in params]
    fails = []
    pos = try_call(gd, args=args)
    exp_arity = len(args) == len(params)
    fit = [fits(k, v) for k, v in zip(sigk, vcs)] if exp_arity else []
    judged = exp_arity and None not in fit
    expect = exp_arity and all(fit) if (not exp_arity or judged) else None
    info = {"judged": expect is not None, "accepted": pos[0] == "ok"}
    if pos[0] == "exc":
        fails.append(("rejection-is-not-JaqalError:%s" % pos[1], {"signature": sigk, "args": vcs, "error": pos[2]}))
    elif expect is True and pos[0] != "ok":
        fails.append(("rejects-fitting-call", {"signature": sigk, "args": vcs, "error": pos[1]}))
    elif expect is False and pos[0] == "ok":
        why = "arity" if not exp_arity else "kind:%s<-%s" % next((k, v) for k, v, f in zip(sigk, vcs, fit) if f is False)
        fails.append(("accepts-unfitting-call:" + why, {"signature": sigk, "args": vcs}))
    # keyword call with the same arguments (only expressible when every argument has a parameter name)
    if len(args) <= len(params) and args:
        kw = try_call(gd, kwargs=dict(zip(names, args)))
        info["kw"] = True
        if kw[0] == "exc":
            fails.append(("keyword-call-rejection-is-not-JaqalError:%s" % kw[1], {"signature": sigk, "args": vcs, "error": kw[2]}))
        elif kw[0] != pos[0]:
            fails.append(("keyword-and-positional-disagree", {"signature": sigk, "args": vcs, "positional": pos[0], "keyword": kw[0]}))
        if len(args) >= 2 and len(args) == len(params):
            # keywords written in another order than the declaration
            rk = try_call(gd, kwargs=dict(reversed(list(zip(names, args)))))
            if rk[0] != pos[0]:
                fails.append(("keyword-order-changes-acceptance", {"signature": sigk, "args": vcs, "positional": pos[0], "reversed-keywords": rk[0]}))
            elif rk[0] == "ok":
                a, b = pos[1], rk[1]
                if list(a.parameters.keys()) != list(b.parameters.keys()) or not all(
                        x is y for x, y in zip(a.parameters.values(), b.parameters.values())) or not (a == b and b == a):
                    fails.append(("keyword-order-changes-statement", {"signature": sigk, "args": vcs,
                                                                      "positional": list(a.parameters.keys()), "keywords": list(b.parameters.keys())}))
        if kw[0] == "ok" and pos[0] == "ok":
            a, b = pos[1], kw[1]
            same = a.name == b.name and list(a.parameters.keys()) == list(b.parameters.keys()) and all(
                x is y for x, y in zip(a.parameters.values(), b.parameters.values())) and a.gate_def is b.gate_def
            if not same or not (a == b):
                fails.append(("keyword-and-positional-statements-differ", {"signature": sigk, "args": vcs}))
    return fails, info


def use_all(gates):
    """Call every definition once positionally and once by keyword, and look at its qubits and (if any) its unitary:
    whatever a definition remembers from being used must not leak into the variants derived from it afterwards."""
    from jaqalpaq.core import Register, ParamType

    reg = Register("use_r", 8)
    n = 0
    for name, g in gates.items():
        args = []
        qi = 0
        for p in g.parameters:
            if p.kind == ParamType.QUBIT:
                args.append(reg[qi])
                qi += 1
            elif p.kind == ParamType.INT:
                args.append(2)
            else:
                args.append(0.5)
        try:
            g(*args)
            g(**{p.name: a for p, a in zip(g.parameters, args)})
            list(g.used_qubits)
            if getattr(g, "ideal_unitary", None) is not None:
                g.ideal_unitary(*[a for p, a in zip(g.parameters, args) if p.kind != ParamType.QUBIT])
            n += 1
        except Exception:
            pass
    return n


USED_FIRST = [0]


def judge_idle(order_seed):
    """add_idle_gates on the native set (active gates in a shuffled order)."""
    import random
    from jaqalpaq.core.gatedef import add_idle_gates, IdleGateDefinition

    fails = []
    base = gateset.make(idle=False, logged=False)
    # ordinary active gates whose names merely look like those of the bounding gates, or like idle gates
    from jaqalpaq.core import GateDefinition, Parameter, ParamType

    for nm in ("prepare_phase", "measure_basis_x", "prepare_allx", "measure_al", "Iprepare", "all_measure", "I2"):
        base[nm] = GateDefinition(nm, [Parameter("q", ParamType.QUBIT), Parameter("t", ParamType.FLOAT)])
    items = list(base.items())
    random.Random(order_seed).shuffle(items)
    if order_seed % 2:
        USED_FIRST[0] += use_all(base)
    out = add_idle_gates(dict(items))
    n = 0
    for name, g in base.items():
        if name in ("prepare_all", "measure_all"):
            if "I_" + name in out:
                fails.append(("idle-gate-for-%s" % name, {}))
            if out.get(name) is not g:
                fails.append(("active-gate-lost", {"gate": name}))
            continue
        n += 1
        if out.get(name) is not g:
            fails.append(("active-gate-lost", {"gate": name}))
        idle = out.get("I_" + name)
        if idle is None:
            fails.append(("idle-gate-missing", {"gate": name}))
            continue
        if [(p.name, p.kind) for p in idle.parameters] != [(p.name, p.kind) for p in g.parameters]:
            fails.append(("idle-signature-differs", {"gate": name}))
        if list(idle.used_qubits) != []:
            fails.append(("idle-uses-qubits", {"gate": name}))
        if idle.ideal_unitary is not None:
            fails.append(("idle-has-unitary", {"gate": name}))
    return fails, n, out


def idle_effect(out, rng):
    """Idle gates interleaved in a random program leave every state unchanged."""
    from .. import sx, gen

    fails = []
    g = gen.ExecGen(rng, reg_size=(2, 3), max_depth=2, body_len=(1, 2), n_maps=(0, 1), n_macros=(0, 0), allow_macros=False, p_idle=0.0)
    prog = g.program()

    def with_idles(s):
        if isinstance(s, tuple):
            k = s[0]
            if k in ("circuit", "sequential_block", "subcircuit_block"):
                outl = []
                for x in s[1:]:
                    y = with_idles(x)
                    outl.append(y)
                    if isinstance(x, tuple) and x[0] == "gate" and x[1] in gateset_sig.RAW and rng.random() < 0.6:
                        outl.append(("gate", "I_" + x[1]) + x[2:])
                return (k,) + tuple(outl)
            if k == "loop":
                return ("loop", s[1], with_idles(s[2]))
        return s

    p2 = with_idles(prog)
    a = lib.outcome(lib.parse, sx.to_text(prog), out)
    b = lib.outcome(lib.parse, sx.to_text(p2), out)
    if a[0] != "ok" or b[0] != "ok":
        return fails, 0
    ra = lib.budgeted(lib.run, 400000, a[1])
    rb = lib.budgeted(lib.run, 400000, b[1])
    if ra[0] != "ok" or rb[0] != "ok":
        if ra[0] != rb[0]:
            fails.append(("idle-gates-change-acceptance", {"without": ra[0], "with": rb[0], "text": sx.to_text(p2)}))
        return fails, 0
    va, vb = X.result_view(ra[1])[0], X.result_view(rb[1])[0]
    if len(va) != len(vb) or any(not np.allclose(x["state"], y["state"], atol=1e-12) for x, y in zip(va, vb)):
        fails.append(("idle-gates-change-state", {"text": sx.to_text(p2)}))
    return fails, 1


UPDATE_CALLS = [0]


def judge_stretched(suffix, with_idle, order_seed, rng, variant="A"):
    import random
    from jaqalpaq.core.stretch import stretched_gates
    from jaqalpaq.core import ParamType
    from jaqalpaq.core.gatedef import IdleGateDefinition

    fails = []
    # variant "B": another gate model of the same machine -- the same names and signatures, other matrices -- in one process
    base = gateset.make(idle=with_idle, logged=False, variant=variant)
    base = {k: v for k, v in base.items() if k not in ("prepare_all", "measure_all")}
    custom = {}
    if with_idle:
        # idle gates with names of the caller's choosing (IdleGateDefinition(parent, name=...)), two of them for one parent
        plain = [k for k, v in base.items() if not isinstance(v, IdleGateDefinition)]
        for k_, nm in zip(random.Random(order_seed + 5).sample(plain, min(2, len(plain))) * 2, ("Wait_%s", "Hold_%s", "Rest_%s")):
            custom[nm % k_] = IdleGateDefinition(base[k_], name=nm % k_)
        base.update(custom)
    items = list(base.items())
    random.Random(order_seed).shuffle(items)
    if order_seed % 2:
        USED_FIRST[0] += use_all(base)
    given = dict(items)
    if order_seed % 4 == 1:
        # "The keys are ignored, and the intrinsic gate names are processed"
        given = {"key%d" % i: v for i, (_k, v) in enumerate(items)}
    update = order_seed % 3 == 0
    before = dict(given)
    o = lib.outcome(stretched_gates, given, suffix=suffix, update=update) if update else lib.outcome(stretched_gates, given, suffix=suffix)
    if o[0] != "ok":
        return [("stretched_gates-raised:" + o[1], {"error": o[2], "suffix": suffix, "with_idle": with_idle, "update": update})], 0, 0
    out = o[1]
    if update:
        # update=True: "return gates after updating with the new stretched gates" -- the dictionary handed in, with what it had
        UPDATE_CALLS[0] += 1
        if out is not given or any(out.get(k) is not v for k, v in before.items()):
            fails.append(("stretched_gates-update-does-not-return-the-updated-input", {"same object": out is given}))
    elif given != before or list(given) != list(before):
        fails.append(("stretched_gates-modified-its-input", {"added": sorted(set(map(str, given)) - set(map(str, before)))[:5]}))
    n = nf = 0
    for name, g in base.items():
        if isinstance(g, IdleGateDefinition):
            continue
        sname = name + suffix
        sg = out.get(sname)
        if sg is None:
            fails.append(("stretched-gate-missing", {"gate": name, "keys": sorted(map(str, out))[:6]}))
            continue
        n += 1
        if sg.name != sname:
            fails.append(("stretched-gate-misnamed", {"key": sname, "name": sg.name}))
        ps = [(p.name, p.kind) for p in sg.parameters]
        if ps[:-1] != [(p.name, p.kind) for p in g.parameters] or ps[-1][1] != ParamType.FLOAT:
            fails.append(("stretched-signature", {"gate": name, "got": [str(x) for x in ps]}))
            continue
        if [(p.name, p.kind) for p in g.parameters] != [(pn, gateset.KIND[k]) for pn, k in gateset_sig.RAW[name][0]]:
            fails.append(("stretched_gates-modified-parent-parameters", {"gate": name}))
        # the variant is CALLED with the parent's arguments plus the factor, never without it
        from jaqalpaq.core import Register

        reg = Register("sr", 8)
        pargs, qi = [], 0
        for p_ in g.parameters:
            if p_.kind == ParamType.QUBIT:
                pargs.append(reg[qi])
                qi += 1
            else:
                pargs.append(2 if p_.kind == ParamType.INT else 0.5)
        good = try_call(sg, args=pargs + [1.5])
        goodk = try_call(sg, kwargs={p_.name: a for p_, a in zip(sg.parameters, pargs + [1.5])})
        short = try_call(sg, args=pargs)
        if good[0] != "ok" or goodk[0] != "ok":
            fails.append(("stretched-gate-rejects-call-with-factor", {"gate": name, "positional": str(good[:2])[:120], "keyword": str(goodk[:2])[:120],
                                                                       "parent-used-before": bool(order_seed % 2)}))
        elif list(good[1].parameters.values())[-1] != 1.5 or len(good[1].parameters) != len(g.parameters) + 1:
            fails.append(("stretched-gate-statement-without-factor", {"gate": name}))
        if short[0] == "ok":
            fails.append(("stretched-gate-accepts-call-without-factor", {"gate": name, "parent-used-before": bool(order_seed % 2)}))
        elif short[0] == "exc":
            fails.append(("stretched-gate-rejection-is-not-JaqalError:" + short[1], {"gate": name}))
        if g.ideal_unitary is None:
            if sg.ideal_unitary is not None:
                fails.append(("stretched-unitary-for-unitaryless-gate", {"gate": name}))
            continue
        if sg.ideal_unitary is None:
            fails.append(("stretched-gate-lost-unitary", {"gate": name}))
            continue
        cl = []
        for pn, k in gateset_sig.RAW[name][0]:
            if k == "f":
                cl.append(rng.uniform(-3, 3))
            elif k == "i":
                cl.append(rng.randint(-2, 5))
        want = np.asarray(g.ideal_unitary(*cl))
        for s in (0.0, 0.5, 1.0, 2.0, rng.uniform(0, 10)):
            nf += 1
            try:
                got = np.asarray(sg.ideal_unitary(*cl, s))
            except Exception as ex:
                fails.append(("stretched-unitary-raised:" + type(ex).__name__, {"gate": name, "error": str(ex)[:150]}))
                break
            if got.shape != want.shape or not np.allclose(got, want, atol=1e-12):
                fails.append(("stretched-unitary-differs-from-parent", {"gate": name, "stretch": s}))
                break
        if with_idle and ("I_" + name) in base:
            isg = out.get("I_" + name + suffix)
            if isg is None or not isinstance(isg, IdleGateDefinition):
                fails.append(("stretched-idle-gate-missing", {"gate": name}))
            elif list(isg.used_qubits) != [] or isg.ideal_unitary is not None or len(isg.parameters) != len(g.parameters) + 1:
                fails.append(("stretched-idle-gate-wrong", {"gate": name}))
    for cname, cidle in custom.items():
        # every gate handed in gets its variant, under its own name plus the suffix
        isg = out.get(cname + suffix)
        CUSTOM_IDLES[0] += 1
        if isg is None or not isinstance(isg, IdleGateDefinition) or isg.name != cname + suffix:
            fails.append(("stretched-idle-gate-missing:custom-idle-name", {"idle": cname, "keys": sorted(k for k in map(str, out) if "Wait" in k or "Hold" in k or "Rest" in k)}))
        elif list(isg.used_qubits) != [] or len(isg.parameters) != len(cidle.parameters) + 1:
            fails.append(("stretched-idle-gate-wrong:custom-idle-name", {"idle": cname}))
    return fails, n, nf


CUSTOM_IDLES = [0]


def shard(ctx):
    rec = ctx.rec
    monitors.install_contracts()
    values = make_values()
    rng = ctx.rng
    j = 0
    sig_index = 0
    complete = True
    maxlen = 3
    for n in range(0, maxlen + 1):
        for sigk in itertools.product(KINDS, repeat=n):
            sig_index += 1
            for arity in (n - 1, n, n + 1):
                if arity < 0:
                    continue
                # full product for arity <= 2; for arity 3-4 vary one position exhaustively around sampled fitting values
                if arity <= 2:
                    arglists = itertools.product(VALUE_CLASSES, repeat=arity)
                else:
                    arglists = sampled_arglists(rng, sigk, arity, ctx.quick)
                arglists = list(arglists)
                # forwards on fresh definitions, then forwards and backwards on ONE definition object per signature
                for vcs, shared in [(v, False) for v in arglists] + [(v, True) for v in arglists] + [(v, True) for v in reversed(arglists)]:
                    j += 1
                    if not shared and not ctx.mine(j):
                        continue
                    if shared and not ctx.mine(sig_index):
                        continue  # all calls on one shared definition happen in one process
                    if rec.expired():
                        complete = False
                        break
                    case = {"signature": list(sigk), "args": list(vcs)}
                    if shared:
                        case["shared"] = True
                        rec.count("calls-on-a-definition-used-before")
                    fails, info = judge_call(case, values)
                    rec.case(case, nontrivial=arity >= 1)
                    rec.count("calls")
                    if info["judged"]:
                        rec.count("calls-judged")
                        rec.count("accepted" if info["accepted"] else "rejected")
                    else:
                        rec.count("calls-not-judged-ambiguous")
                    if info.get("kw"):
                        rec.count("keyword-vs-positional")
                    for clause, detail in fails:
                        rec.violation(sig("C18", clause), detail, dict(case, kind="call"))
                    if j <= 3 * ctx.nshards:
                        rec.sample(case)
    rec.exhaustive = complete
    rec.note("exhaustive_space", "signatures of length 0-3 over 5 kinds; argument lists: full product of 13 value classes for arity <= 2, "
             "all single-position variations around fitting lists for arity 3-4; arities n-1, n, n+1")
    # idle and stretched variants
    for k in range(3 if ctx.quick else 12):
        seed = ctx.seed * 100 + k
        fails, n, out = judge_idle(seed)
        rec.count("idle-gates-checked", n)
        for clause, detail in fails:
            rec.violation(sig("C18", clause), detail, {"kind": "idle", "order_seed": seed})
        for _ in range(6):
            f2, m = idle_effect(out, rng)
            rec.count("idle-effect-programs", m)
            for clause, detail in f2:
                rec.violation(sig("C18", clause), detail, {"kind": "idle-effect"})
        for si, suffix in enumerate(("_stretched", "_s", ".x")):
            for with_idle in (False, True):
                variant = "AB"[(k + si) % 2]
                fails, n, nf = judge_stretched(suffix, with_idle, seed, rng, variant)
                rec.count("stretched-gates-checked", n)
                rec.count("stretched-gates-checked:gate-model-" + variant, n)
                rec.count("stretch-factors-sampled", nf)
                for clause, detail in fails:
                    rec.violation(sig("C18", clause), detail, {"kind": "stretched", "suffix": suffix, "with_idle": with_idle, "order_seed": seed, "variant": variant})
    rec.counters["definitions-used-before-variants-were-derived"] = USED_FIRST[0]
    rec.counters["stretched_gates-calls-with-update"] = UPDATE_CALLS[0]
    rec.counters["stretched-idle-gates-with-custom-names"] = CUSTOM_IDLES[0]
    monitors.report_contracts(rec)


def sampled_arglists(rng, sigk, arity, quick):
    """For longer calls: start from a list that fits (where possible) and vary each position over all value classes."""
    base = []
    for i in range(arity):
        k = sigk[i] if i < len(sigk) else "NONE"
        fitting = [v for v in VALUE_CLASSES if fits(k, v)]
        base.append(rng.choice(fitting))
    seen = set()
    for pos in range(arity):
        for v in VALUE_CLASSES:
            t = tuple(base[:pos] + [v] + base[pos + 1:])
            if t not in seen:
                seen.add(t)
                yield t


def replay(ctx, case):
    k = case.get("kind")
    if k == "call":
        fails, info = judge_call(case, make_values())
    elif k == "idle":
        fails = judge_idle(case["order_seed"])[0]
    elif k == "stretched":
        fails = judge_stretched(case["suffix"], case["with_idle"], case["order_seed"], ctx.rng, case.get("variant", "A"))[0]
    else:
        fails = []
    for clause, detail in fails:
        ctx.rec.violation(sig("C18", clause), detail, case)
