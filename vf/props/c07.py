"""C07 -- identifiers resolve lexically; statement meaning ignores unrelated statements."""
from .. import sx, gen, lib, meaning as M, monitors, minimise
from .common import header_diff, prog_features, sig, case_prog
from . import execcommon as X
from . import builder_route

RULE = ("programs biased to textually identical gate statements in different scopes (main body, several macros; 2-6 twins per "
        "program) and to collisions between macro parameters and lets / registers / aliases used as direct argument, array "
        "name, array index and loop count. Oracle = the model's lexical binding (vf/meaning.py core_from_sx) compared with the "
        "meaning read from the parsed IR, macros unexpanded and expanded; metamorphic: removing the twin statement from another "
        "scope must not change the meaning of the remaining statements. Monitors: GateMemoizer.get hits (a run without cache hits "
        "is inconclusive). non-trivial = program has a name collision or a twin; distinct = S-expression")
ASSUMPTIONS = ["lexical binding rules as implemented in core_from_sx: parameters shadow header names inside the macro body only"]
TIERS = {"quick": {"shards": 8, "budget_s": 200}, "thorough": {"shards": 16, "budget_s": 360}}
REQUIRE = {"legality-twin-builds": 2000, "macro-bodies-analysed-in-call-site-scope": 300, "alias-fill-in-results-read-back-by-name": 1000, "used-qubit-analyses-compared": 3000, "route:builder": 300, "judged-after-shifted-twin": 500, "route:text-native": 1000, "override-of-shadowed-name": 300, "route:build-lists": 300, "route:text": 300, "memo-hits": 500, "memo-hits-across-scopes": 50, "shadowing-programs": 300, "twin-programs": 300,
           "metamorphic-pairs": 200}

MEMO = {"hits": 0, "cross": 0, "calls": 0}
_W = [False]


def wrap_memo():
    if _W[0]:
        return
    from jaqalpaq.core.circuitbuilder import GateMemoizer

    orig_get = GateMemoizer.get

    def get(self, gate_name, gate_args, context):
        gate, key = orig_get(self, gate_name, gate_args, context)
        MEMO["calls"] += 1
        if gate is not None:
            MEMO["hits"] += 1
            # a hit whose stored gate was created under a different set of bindings for the names it mentions
            first = getattr(self, "_vf_scope", {}).get(key)
            names = set(_names(gate_args))
            binding = tuple((n, id(context.get(n))) for n in sorted(names))
            if first is not None and first != binding:
                MEMO["cross"] += 1
        else:
            names = set(_names(gate_args))
            binding = tuple((n, id(context.get(n))) for n in sorted(names))
            if not hasattr(self, "_vf_scope"):
                self._vf_scope = {}
            self._vf_scope.setdefault(key, binding)
        return gate, key

    GateMemoizer.get = get
    _W[0] = True


def _names(args):
    for a in args:
        if isinstance(a, str):
            yield a
        elif isinstance(a, (list, tuple)):
            yield from _names(a[1:])


INFO = {}


def qubits_of(tree):
    """Every (register, index) that occurs as a resolved qubit in a meaning tree."""
    out = set()

    def scan(t):
        if isinstance(t, tuple):
            if len(t) == 3 and t[0] == "q" and isinstance(t[1], str) and isinstance(t[2], int):
                out.add((t[1], t[2]))
                return
            for x in t:
                scan(x)

    scan(tree)
    return out


def judge(case):
    prog = case_prog(case)
    if not sx.legal_nesting(prog):
        return "skipped:illegal-nesting", [], None
    try:
        km = M.core_from_sx(prog)
        m_raw = M.meaning(km, expand_macros=False)
        m_mac = M.macro_meanings(km)
    except M.MeaningError as ex:
        return "skipped:model-invalid:" + ex.kind, [], None
    route = case.get("route", "text")
    # programs built earlier in this process (with the same gate definitions): a statement spelled like one of theirs
    # must not inherit what the names meant there
    for prior in case.get("prior") or ():
        pp = sx.unnorm(prior) if isinstance(prior, list) else prior
        lib.outcome(lib.parse, sx.to_text(pp), X.native() if route == "text-native" else None)
    if route == "text-native":
        o = lib.outcome(lib.parse, sx.to_text(prog), X.native())
    elif route == "builder":
        # assembled through the object-oriented CircuitBuilder API (see builder_route)
        o = lib.outcome(lambda: builder_route.via_builder(prog, case.get("bseed", 0))[0])
    elif route == "build-lists":
        # the documented S-expression API accepts lists as well as tuples (e.g. after a JSON round trip)
        o = lib.outcome(lib.build, to_lists(prog))
    elif route == "build-tuples":
        o = lib.outcome(lib.build, prog)
    else:
        o = lib.outcome(lib.parse, sx.to_text(prog))
    if o[0] != "ok":
        return "skipped:input-rejected:" + o[1], [], None
    c = o[1]
    fails = []
    try:
        kc = M.core_from_ir(c)
        g_raw = M.meaning(kc, expand_macros=False)
        g_mac = M.macro_meanings(kc)
    except M.OracleError as ex:
        return "inconclusive:oracle:%s" % ex, [], None
    if not M.tree_equal(m_raw, g_raw):
        fails.append(("body-binding-differs", {"diff": M.first_diff(m_raw, g_raw)}))
    if not M.tree_equal(tuple(m_mac.items()), tuple(g_mac.items())):
        fails.append(("macro-binding-differs", {"diff": M.first_diff(tuple(m_mac.items()), tuple(g_mac.items()))}))
    hd = header_diff(km, kc, what=("lets", "usepulses", "macros"))
    if hd:
        fails.append(("header-differs:" + "+".join(h[0] for h in hd), {"diff": hd}))
    try:
        m_full = M.meaning(km, expand_macros=True, env={}, resolve=True)
    except M.MeaningError:
        m_full = None
    if m_full is not None:
        try:
            g_full = M.meaning(kc, expand_macros=True, env={}, resolve=True)
            if not M.tree_equal(m_full, g_full):
                fails.append(("expanded-meaning-differs", {"diff": M.first_diff(m_full, g_full)}))
        except M.MeaningError as ex:
            fails.append(("parsed-circuit-has-no-meaning:" + ex.kind, {"error": str(ex)}))
    # consumers must respect the same lexical binding
    # (a) macro expansion: a parameter never captures a header name used through an alias or let
    if not fails:
        o2 = lib.outcome(lib.expand_macros, c)
        if o2[0] == "ok":
            try:
                want = M.meaning(km, expand_macros=True, expand_a1=True)
                got = M.meaning(M.core_from_ir(o2[1]), expand_macros=False, expand_a1=True)
                if not M.tree_equal(want, got):
                    fails.append(("expand_macros-breaks-lexical-binding", {"diff": M.first_diff(want, got)}))
            except (M.MeaningError, M.OracleError):
                pass
        elif o2[0] == "exc":
            fails.append(("expand_macros-crashed:" + o2[1], {"error": o2[2]}))
    # (c) used-qubit analysis of the circuit as written (macro calls analysed in place): every identifier inside a call's
    #     arguments means what it means where the call is written.  Judged when the model and the library's own analysis of
    #     the macro-expanded circuit agree on the set (so the difference lies in how calls are followed).
    if not fails and m_full is not None:
        want_q = qubits_of(m_full)
        oa = lib.outcome(lib.used_qubits, c)
        ob = lib.outcome(lambda: lib.used_qubits(lib.expand_macros(c)))
        if ob[0] == "ok" and oa[0] != "budget":
            as_set = lambda r: {(k, i) for k, v in dict(r).items() for i in v}
            if as_set(ob[1]) == want_q:
                if oa[0] != "ok":
                    fails.append(("used-qubit-analysis-raised:" + oa[1], {"error": oa[2], "expected": sorted(want_q)}))
                elif as_set(oa[1]) != want_q:
                    fails.append(("used-qubit-analysis-breaks-lexical-binding", {"expected": sorted(want_q), "got": sorted(as_set(oa[1]))}))
                INFO["used"] = INFO.get("used", 0) + 1
    # (d) alias fill-in writes references in terms of the register: inside a macro one of whose parameters carries the
    #     register's name that spelling would mean the parameter.  Either the pass refuses, or what it wrote -- read back
    #     by name, through the generated text -- still means what the program meant.
    if not fails and m_full is not None:
        od = lib.outcome(lambda: lib.fill_in_map(lib.fill_in_let(c)))
        if od[0] == "ok":
            ot = lib.outcome(lib.generate, od[1])
            orp = lib.outcome(lib.parse, ot[1], X.native() if route == "text-native" else None) if ot[0] == "ok" else ot
            INFO["filled"] = INFO.get("filled", 0) + 1
            if orp[0] != "ok":
                fails.append(("fill_in_map-breaks-lexical-binding:result-not-readable-by-name", {"error": str(orp[1:3])[:200],
                                                                                                "text": ot[1] if ot[0] == "ok" else None}))
            else:
                try:
                    g_d = M.meaning(M.core_from_ir(orp[1]), expand_macros=True, env={}, resolve=True)
                    if not M.tree_equal(m_full, g_d):
                        fails.append(("fill_in_map-breaks-lexical-binding", {"diff": M.first_diff(m_full, g_d), "text": ot[1]}))
                except M.MeaningError as ex:
                    fails.append(("fill_in_map-breaks-lexical-binding:no-meaning:" + ex.kind, {"text": ot[1]}))
                except M.OracleError:
                    pass
        elif od[0] == "exc":
            fails.append(("fill_in_map-crashed:" + od[1], {"error": od[2]}))
    # (e) the statements of a macro body analysed in the scope of each call site (context = the call's arguments): a
    #     parameter named like a let that bounds an alias binds the parameter, never the alias's bound
    if not fails and route == "text-native" and m_full is not None:
        from . import c13

        st_e, s_e = X.setup(prog)
        if st_e == "ok":
            f_e, i_e = [], {}
            try:
                c13.call_site_scopes(s_e, s_e.core.fundamental()[0][1], f_e, i_e)
            except (M.MeaningError, M.OracleError):
                f_e = []
            INFO["scopes"] = INFO.get("scopes", 0) + i_e.get("used_ctx", 0)
            for clause_e, detail_e in f_e[:1]:
                fails.append(("call-site-scope:" + clause_e, detail_e))
    # (b) let substitution with an override of a name that some macro parameter shadows
    ov = case.get("ov")
    if ov is None and not fails and case.get("no_ov_fill", True):
        ov = {}  # let substitution with the declared values: the same binding questions arise
    if ov is not None and not fails:
        try:
            M.validate(km, ov)
            want_b = M.meaning(km, expand_macros=False, env=ov, expand_a1=True)
            want_m = M.macro_meanings(km, env=ov, expand_a1=True)
        except M.MeaningError:
            want_b = None
        if want_b is not None:
            o3 = lib.outcome(lib.fill_in_let, c, dict(ov))
            if o3[0] == "ok":
                try:
                    k3 = M.core_from_ir(o3[1])
                    got_b = M.meaning(k3, expand_macros=False, eval_lets=False, expand_a1=True)
                    got_m = M.macro_meanings(k3, eval_lets=False, expand_a1=True)
                    if not M.tree_equal(want_b, got_b):
                        fails.append(("fill_in_let-breaks-lexical-binding:body", {"diff": M.first_diff(want_b, got_b), "ov": ov}))
                    elif not M.tree_equal(tuple(want_m.items()), tuple(got_m.items())):
                        fails.append(("fill_in_let-breaks-lexical-binding:macro",
                                      {"diff": M.first_diff(tuple(want_m.items()), tuple(got_m.items())), "ov": ov}))
                except (M.MeaningError, M.OracleError):
                    pass
            elif o3[0] == "exc":
                fails.append(("fill_in_let-crashed:" + o3[1], {"error": o3[2], "ov": ov}))
    return "ok", fails, {"c": c, "kc": kc}


def legality_twin_probe(ctx, count):
    """Whether a statement may stand where it stands does not depend on an identically written statement elsewhere: a call
    of a macro that holds a subcircuit block is refused inside a subcircuit block or a parallel block -- also when the same
    call, written the same way, stands legally at the top of the program before it."""
    rec, rng = ctx.rec, ctx.rng
    for _ in range(count):
        mname = rng.choice(["m", "flip", "sect", "F"])
        par = rng.choice(["a", "x", "q"])
        arg = ("array_item", "q", rng.randrange(2))
        inner = rng.choice([("subcircuit_block", "", ("gate", "X", par)), ("loop", 2, ("sequential_block", ("subcircuit_block", 3, ("gate", "X", par))))])
        mac = ("macro", mname, par, ("sequential_block", inner))
        call = ("gate", mname, arg)
        where = rng.choice(["sub", "par", "sub-in-loop", "par-in-seq"])
        nested = {"sub": ("subcircuit_block", "", call), "par": ("parallel_block", call, ("gate", "X", ("array_item", "q", 1 - arg[2]))),
                  "sub-in-loop": ("loop", 2, ("sequential_block", ("subcircuit_block", "", call))),
                  "par-in-seq": ("sequential_block", ("parallel_block", call))}[where]
        hdr = (("register", "q", 2),)
        alone = ("circuit",) + hdr + (mac, nested)
        legal_first = ("circuit",) + hdr + (mac, call, nested)
        legal_after = ("circuit",) + hdr + (mac, nested, call)
        native = X.native() if rng.random() < 0.5 else None
        outs = {}
        for tag, pg in (("alone", alone), ("after-the-same-call-at-top-level", legal_first), ("before-the-same-call-at-top-level", legal_after)):
            for route in ("text", "build"):
                o = lib.outcome(lib.parse, sx.to_text(pg), native) if route == "text" else lib.outcome(lib.build, pg, native)
                outs[(tag, route)] = o[0]
                rec.count("legality-twin-builds")
        rec.case([alone, where], nontrivial=True)
        for (tag, route), v in outs.items():
            if v == "exc":
                rec.violation(sig("C07", "legality-twin:crash:" + route), {"where": where, "case": tag}, {"prog": legal_first, "route": "text"})
            elif tag != "alone" and outs[("alone", route)] == "jaqal" and v == "ok":
                rec.violation(sig("C07", "legality-depends-on-an-identical-statement-elsewhere:%s:%s" % (where, tag)),
                              {"alone": "refused", "with the same call elsewhere": "accepted", "text": sx.to_text(legal_first if "after" in tag else legal_after), "route": route},
                              {"prog": legal_first if "after" in tag else legal_after, "route": "text"})
        if outs[("alone", "text")] != "jaqal":
            rec.violation(sig("C07", "legality-twin:nested-subcircuit-accepted:" + where), {"text": sx.to_text(alone)}, {"prog": alone, "route": "text"})


def shifted_twin(prog):
    """The same program text except that the register has one more qubit and every slice taken directly from it starts
    (and stops) one later: all statements are spelled as before but the aliases denote other qubits.  None if the program
    has no such slice or its bounds are not literal."""
    regs = [s for s in prog[1:] if s[0] == "register"]
    if len(regs) != 1 or not isinstance(regs[0][2], int):
        return None
    rname, n = regs[0][1], regs[0][2]
    out = []
    changed = False
    for s in prog[1:]:
        if s[0] == "register":
            out.append(("register", rname, n + 1))
        elif s[0] == "map" and len(s) == 6 and s[2] == rname:
            st, sp, se = s[3:6]
            if any(isinstance(x, str) for x in (st, sp, se)) or (se is not None and se < 0):
                return None
            out.append(("map", s[1], rname, (0 if st is None else st) + 1, (n if sp is None else sp) + 1, se))
            changed = True
        else:
            out.append(s)
    return ("circuit",) + tuple(out) if changed else None


def to_lists(x):
    if isinstance(x, tuple):
        return [to_lists(v) for v in x]
    return x


def _clauses(case):
    return {f[0] for f in judge(case)[1]}


def shadow_override(rng, prog):
    """Override dictionary over lets whose name is also a macro parameter (and a few others)."""
    lets = {s[1]: s[2] for s in prog[1:] if s[0] == "let"}
    params = {p for s in prog[1:] if s[0] == "macro" for p in s[2:-1]}
    ov = {}
    for name, v in lets.items():
        if (name in params and rng.random() < 0.8) or rng.random() < 0.15:
            if isinstance(v, int) and 0 <= v <= 6:
                ov[name] = rng.randint(0, 4)
            elif isinstance(v, float):
                ov[name] = rng.choice([0.25, -1.5, 2.0])
    return ov


def statements_with_paths(prog):
    """(path, statement) for every gate statement, path = indices from the program root."""
    out = []

    def walk(s, path):
        for i, x in enumerate(s):
            if isinstance(x, tuple):
                if x[0] == "gate":
                    out.append((path + (i,), x))
                elif x[0] in ("sequential_block", "parallel_block", "subcircuit_block", "loop", "macro"):
                    walk(x, path + (i,))

    walk(prog, ())
    return out


def remove_at(s, path):
    if len(path) == 1:
        return s[:path[0]] + s[path[0] + 1:]
    return s[:path[0]] + (remove_at(s[path[0]], path[1:]),) + s[path[0] + 1:]


def stmt_meanings(core):
    """Meaning of each top-level item (body statements and macro bodies) separately."""
    out = {}
    body = core.body[1] if core.body[0] == "seq" else (core.body,)
    ev = M.Evaluator(core, expand_macros=False)
    out["body"] = tuple(M.normalise(ev.stmt(s, {})) for s in body)
    for name, (params, b) in core.macros.items():
        out["macro:" + name] = M.normalise(ev.stmt(b, {}))
    return out


def metamorphic(ctx, prog):
    """Remove one twin statement from one scope; everything else must keep its meaning."""
    rec = ctx.rec
    gates = statements_with_paths(prog)
    by_text = {}
    for path, g in gates:
        by_text.setdefault(g, []).append(path)
    twins = [(g, ps) for g, ps in by_text.items() if len(ps) >= 2 and len({p[0] for p in ps}) >= 2]
    if not twins:
        return
    g, paths = ctx.rng.choice(twins)
    victim = ctx.rng.choice(paths)
    p2 = remove_at(prog, victim)
    if not sx.legal_nesting(p2):
        return
    o1 = lib.outcome(lib.parse, sx.to_text(prog))
    o2 = lib.outcome(lib.parse, sx.to_text(p2))
    if o1[0] != "ok" or o2[0] != "ok":
        return
    try:
        k1, k2 = M.core_from_ir(o1[1]), M.core_from_ir(o2[1])
        m1, m2 = stmt_meanings(k1), stmt_meanings(k2)
        e1 = stmt_meanings(M.core_from_sx(prog))
        e2 = stmt_meanings(M.core_from_sx(p2))
    except (M.OracleError, M.MeaningError):
        return
    rec.count("metamorphic-pairs")
    # the library's view of each scope must change exactly as the model's view does
    for scope in m1:
        if scope not in m2:
            continue
        same_model = M.tree_equal(e1.get(scope), e2.get(scope))
        same_lib = M.tree_equal(m1[scope], m2[scope])
        if same_model and not same_lib:
            rec.violation(sig("C07", "unrelated-statement-changes-meaning"),
                          {"scope": scope, "removed": g, "before": m1[scope], "after": m2[scope]},
                          {"prog": prog, "removed_path": list(victim)})
            break


def process(ctx, case, seen):
    rec = ctx.rec
    prog = case_prog(case)
    MEMO.update(hits=0, cross=0, calls=0)
    INFO.clear()
    st, fails, info = judge(case)
    rec.count("used-qubit-analyses-compared", INFO.get("used", 0))
    rec.count("macro-bodies-analysed-in-call-site-scope", INFO.get("scopes", 0))
    rec.count("alias-fill-in-results-read-back-by-name", INFO.get("filled", 0))
    letnames = {s[1] for s in prog[1:] if s[0] in ("let", "register", "map")}
    shadow = any(s[0] == "macro" and set(s[2:-1]) & letnames for s in prog[1:])
    gates = [g for _p, g in statements_with_paths(prog)]
    twin = len(gates) != len(set(gates))
    rec.case([prog, case.get("route", "text")], nontrivial=shadow or twin)
    rec.count("route:" + case.get("route", "text"))
    if st != "ok":
        rec.count(":".join(st.split(":")[:3]))
        if st.startswith("inconclusive"):
            rec.inconc(st)
        return
    rec.count("judged")
    rec.count("memo-calls", MEMO["calls"])
    rec.count("memo-hits", MEMO["hits"])
    rec.count("memo-hits-across-scopes", MEMO["cross"])
    if shadow:
        rec.count("shadowing-programs")
    if case.get("ov"):
        rec.count("override-of-shadowed-name")
    if twin:
        rec.count("twin-programs")
    f = prog_features(prog)
    for clause, detail in fails:
        key = (clause, tuple(sorted(f)))
        seen[key] = seen.get(key, 0) + 1
        if seen[key] > 2:
            rec.count("unminimised-repeat:" + clause)
            continue
        route = case.get("route", "text")
        base = {"route": route, "ov": case.get("ov")}
        if "bseed" in case:
            base["bseed"] = case["bseed"]
        if case.get("prior"):
            base["prior"] = case["prior"]
        small = minimise.minimise(prog, lambda p: clause in _clauses(dict(base, prog=p)), budget=250)
        d2 = [x for x in judge(dict(base, prog=small))[1] if x[0] == clause]
        feats = prog_features(small)
        if base.get("prior"):
            feats.add("after-building-a-program-with-the-same-spelling")
        rec.violation(sig("C07", clause + ("" if route == "text" else ":" + route), feats),
                      d2[0][1] if d2 else detail, dict(base, prog=small))
    if twin and not fails:
        metamorphic(ctx, prog)


def shard(ctx):
    rec = ctx.rec
    monitors.install_contracts()
    wrap_memo()
    n = ctx.scale(12000, 200000)
    seen = {}
    i = 0
    while i < n and not rec.expired():
        i += 1
        rng = ctx.rng
        g = gen.ProgGen(rng, n_macros=(1, 4), n_lets=(1, 4), n_maps=(0, 3), max_depth=rng.choice([1, 2, 3]),
                        p_shadow=rng.choice([0.6, 0.9]), p_twin=rng.choice([0.3, 0.6]), p_hostile_names=0.0,
                        body_len=(2, 6), block_len=(1, 4), wild_numbers=False, p_let_index=0.5, p_let_arg=0.5,
                        reg_size=(2, 4), allow_sub=rng.random() < 0.3)
        prog = g.program()
        case = {"prog": prog, "route": rng.choice(["text", "text", "build-lists", "build-tuples", "builder"])}
        if case["route"] == "builder":
            case["bseed"] = rng.randrange(1 << 30)
        ov = shadow_override(rng, prog)
        if ov:
            case["ov"] = ov
        process(ctx, case, seen)
        if i <= 3:
            rec.sample({"text": sx.to_text(prog)})
        if i % 4 == 0:
            # executable programs over ONE fixed set of gate definition objects, each judged after its shifted twin
            # (same spelling, aliases moved by one qubit) has been built in the same process
            size = rng.choice([2, 3, 4])
            g = gen.ExecGen(rng, reg_size=(size, size), max_depth=rng.choice([1, 2]), body_len=(1, 3), n_maps=(1, 4),
                            n_macros=(0, 3), p_let_reg=0.0, p_shadow=0.6)
            prog = g.program()
            case = {"prog": prog, "route": "text-native"}
            twin = shifted_twin(prog)
            if twin is not None:
                case["prior"] = [twin]
                rec.count("judged-after-shifted-twin")
            process(ctx, case, seen)
            if twin is not None:
                # ... and the twin after the original
                process(ctx, {"prog": twin, "route": "text-native", "prior": [prog]}, seen)
    legality_twin_probe(ctx, 60 if ctx.quick else 600)
    monitors.report_contracts(rec)


def replay(ctx, case):
    wrap_memo()
    prog = case_prog(case)
    route = case.get("route", "text")
    st, fails, info = judge({"prog": prog, "route": route, "ov": case.get("ov"), "prior": case.get("prior"), "bseed": case.get("bseed", 0)})
    for clause, detail in fails:
        feats = prog_features(prog)
        if case.get("prior"):
            feats.add("after-building-a-program-with-the-same-spelling")
        ctx.rec.violation(sig("C07", clause + ("" if route == "text" else ":" + route), feats), detail, case)
    if "removed_path" in case:
        ctx.rng.seed(0)
        metamorphic(ctx, prog)
