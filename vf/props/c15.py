"""C15 -- result views are normalised and mutually consistent (little-endian)."""
import warnings

import numpy as np

from .. import sx, gen, lib, meaning as M, monitors, gateset, refexec
from .common import sig, case_prog
from . import execcommon as X

RULE = ("(a) every subcircuit object returned by the emulator for basis-state programs (non-palindromic certain outcomes) and "
        "random executable programs, n = 1..6 (thorough 8); (b) parse_jaqal_output_list for n = 1..10 with every outcome "
        "0..2^n-1 for n <= 8 supplied as int and as bit string (exhaustive), sampled beyond; (c) ProbabilisticSubcircuit "
        "constructed directly with perturbed vectors around the CUTOFF thresholds. Oracle = independent bits(k, n) and plain "
        "counting. non-trivial = n >= 2 (bit order observable); distinct = (mode, n, program or outcome list hash)")
ASSUMPTIONS = ["bits(k, n): character i of the string = bit i of the integer (qubit 0 leftmost and least significant)"]
TIERS = {"quick": {"shards": 8, "budget_s": 180}, "thorough": {"shards": 16, "budget_s": 300}}
REQUIRE = {"output-lists-for-programs-without-the-harness-gate-set": 8, "views-held-and-rechecked": 5000, "many-shot-output-lists": 2, "mode:frequencies": 50, "mode:job": 50, "mode:emulator": 100, "mode:outputs": 50, "mode:direct": 50, "non-palindromic-certain-outcomes": 50,
           "outcomes-as-int": 500, "outcomes-as-str": 500, "views-checked": 300}


HELD = []


def hold(name, view):
    """A view handed out stays what it was when it was handed out, whatever other views are asked for later (of this or
    of any other subcircuit): remember the object and a copy of its contents."""
    try:
        HELD.append((name, view, list(view.items())))
    except Exception:
        pass
    return view


def check_held(fails):
    for name, view, snap in HELD:
        try:
            now = list(view.items())
        except Exception as ex:
            now = repr(ex)
        if now != snap:
            changed = [k for (k, v), (k2, v2) in zip(snap, now) if k != k2 or v != v2][:4] if isinstance(now, list) else now
            fails.append(("view-changed-after-it-was-handed-out:" + name, {"held views": len(HELD), "first changed keys": changed}))
            break
    del HELD[:]


def check_views(tag, sc, n, fails, probabilistic):
    """All views of one subcircuit object."""
    N = 2 ** n
    keys = [refexec.bits(k, n) for k in range(N)]
    if probabilistic:
        p = np.asarray(sc.simulated_probability_by_int, dtype=float)
        if p.shape != (N,):
            fails.append((tag + ":probability-shape", {"shape": p.shape, "n": n}))
            return
        if (p < 0).any():
            fails.append((tag + ":negative-probability", {"min": float(p.min())}))
        if abs(p.sum() - 1) > 1e-9:
            fails.append((tag + ":probabilities-do-not-sum-to-one", {"sum": float(p.sum())}))
        d = hold("simulated_probability_by_str", sc.simulated_probability_by_str)
        if list(d.keys()) != keys:
            fails.append((tag + ":string-view-keys", {"got": list(d.keys())[:8], "expected": keys[:8]}))
        elif any(d[keys[k]] != p[k] for k in range(N)):
            fails.append((tag + ":string-view-values", {}))
        # deprecated aliases must describe the same distribution
        if list(sc.probability_by_str.keys()) != keys or any(sc.probability_by_int[k] != p[k] for k in range(N)):
            fails.append((tag + ":deprecated-view-differs", {}))
    if not probabilistic:
        # the deprecated aliases first: reading a view must not change what the other views say afterwards
        dep_i = np.asarray(sc.probability_by_int, dtype=float).copy()
        dep_s = dict(hold("probability_by_str", sc.probability_by_str))
        rf0 = np.asarray(sc.relative_frequency_by_int, dtype=float)
        tot_d, tot_r = dep_i.sum(), rf0.sum()
        if dep_i.shape != rf0.shape or list(dep_s.keys()) != keys or any(dep_s[keys[k]] != dep_i[k] for k in range(N)) or \
                ((tot_d > 0 or tot_r > 0) and not np.allclose(dep_i * (tot_r or 1), rf0 * (tot_d or 1), rtol=1e-12, atol=0)):
            fails.append((tag + ":deprecated-view-differs", {"deprecated": dep_i.tolist()[:8], "relative_frequency": rf0.tolist()[:8]}))
    rf = np.asarray(sc.relative_frequency_by_int)
    if rf.shape != (N,):
        fails.append((tag + ":frequency-shape", {"shape": rf.shape}))
        return
    d = hold("relative_frequency_by_str", sc.relative_frequency_by_str)
    if list(d.keys()) != keys:
        fails.append((tag + ":frequency-string-view-keys", {"got": list(d.keys())[:8], "expected": keys[:8]}))
    elif any(d[keys[k]] != rf[k] for k in range(N)):
        fails.append((tag + ":frequency-string-view-values", {}))
    counts = np.zeros(N)
    for r in sc.readouts:
        s, k = r.as_str, r.as_int
        if len(s) != n or s != refexec.bits(k, n):
            fails.append((tag + ":readout-str-int-mismatch", {"as_str": s, "as_int": k, "n": n}))
            return
        if not 0 <= k < N:
            fails.append((tag + ":readout-out-of-range", {"as_int": k}))
            return
        counts[k] += 1
    if not np.array_equal(rf, counts):
        fails.append((tag + ":relative-frequencies-not-counts", {"expected": counts.tolist()[:16], "got": rf.tolist()[:16]}))


def judge_emulator(case):
    prog = case_prog(case)
    st, s = X.setup(prog)
    if st != "ok":
        return st, [], None
    P = s.P
    try:
        scan = P.flat_scan()
    except refexec.Reject:
        return "skipped:not-well-bracketed", [], None
    if P.overlap() is not None or P.repeated_qubit_gate() is not None or scan["trailing_gates"]:
        return "skipped:invalid", [], None
    o = X.run(s, None, seed=case.get("npseed", 1))
    if o[0] != "ok":
        return "skipped:emulator-" + o[0], [], None
    res = o[1]
    fails = []
    info = {"n": s.n, "views": 0}
    for i, sc in enumerate(res.subcircuits):
        if len(sc.measured_qubits) != s.n:
            fails.append(("emulator:measured-qubits", {"got": len(sc.measured_qubits), "n": s.n}))
            break
        check_views("emulator", sc, s.n, fails, True)
        info["views"] += 1
        if fails:
            break
    exp = case.get("certain")
    if exp is not None and not fails and res.subcircuits:
        sc = res.subcircuits[0]
        p = sc.simulated_probability_by_int
        if abs(p[exp] - 1) > 1e-9:
            fails.append(("emulator:certain-outcome-misplaced", {"expected_int": exp, "argmax": int(np.argmax(p))}))
        key = refexec.bits(exp, s.n)
        if abs(sc.simulated_probability_by_str.get(key, 0) - 1) > 1e-9:
            fails.append(("emulator:certain-outcome-string", {"expected": key}))
        for r in sc.readouts:
            if r.as_int != exp or r.as_str != key:
                fails.append(("emulator:certain-outcome-readout", {"as_int": r.as_int, "as_str": r.as_str, "expected": (exp, key)}))
                break
    return "ok", fails, info


def judge_job(case):
    """A prepared job executed several times: the same subcircuit objects accumulate readouts;
    every view is read between the executions and must stay consistent with the readouts."""
    from jaqalpaq.emulator.unitary import UnitarySerializedEmulator

    prog = case_prog(case)
    st, s = X.setup(prog)
    if st != "ok":
        return st, [], None
    P = s.P
    try:
        scan = P.flat_scan()
    except refexec.Reject:
        return "skipped:not-well-bracketed", [], None
    if P.overlap() is not None or P.repeated_qubit_gate() is not None or scan["trailing_gates"]:
        return "skipped:invalid", [], None
    o = lib.outcome(lambda: lib.expand_macros(lib.fill_in_let(lib.expand_subcircuits(s.c))))
    if o[0] != "ok":
        return "skipped:expand-" + o[0], [], None
    np.random.seed(case.get("npseed", 1))
    oj = lib.outcome(lambda: UnitarySerializedEmulator()(o[1]))
    if oj[0] != "ok":
        return "skipped:job-" + oj[0], [], None
    job = oj[1]
    fails = []
    info = {"n": s.n, "views": 0, "executions": 0}
    total = 0
    for k in range(case.get("executions", 3)):
        # views handed out so far are judged before the job runs again (a view that follows later readouts is not at fault)
        check_held(fails)
        r = lib.budgeted(job.execute, X.budget_for(P))
        if r[0] != "ok":
            return "skipped:execute-" + r[0], fails, info
        info["executions"] += 1
        res = r[1]
        total += len(res.readouts)
        for sc in res.subcircuits:
            check_views("job(execution %d)" % (k + 1), sc, s.n, fails, True)
            info["views"] += 1
            if fails:
                return "ok", [(c.replace("job(execution %d)" % (k + 1), "job:after-reexecution" if k else "job:first-execution"), d) for c, d in fails], info
        got = sum(len(sc.readouts) for sc in res.subcircuits)
        if got != total:
            fails.append(("job:readouts-not-accumulated-consistently", {"expected": total, "got": got}))
            break
    return "ok", fails, info


def judge_outputs(case):
    """One subcircuit visited len(outs) times; outcomes supplied as int and as str."""
    n = case["n"]
    values = case["values"]
    touch = case.get("touch")
    mid = "" if touch is None else " X q[%d] ;" % (touch % n)
    text = "register q[%d]\nloop %d { prepare_all ;%s measure_all }\n" % (n, len(values), mid)
    gates = case.get("gates", "native")
    if gates == "none":
        # a program parsed without gate definitions (the usual way to read back what hardware returned)
        o = lib.outcome(lib.parse, text)
    elif gates == "plain":
        # the caller's own plain definitions of the bounding gates
        from jaqalpaq.core import GateDefinition, Parameter, ParamType

        o = lib.outcome(lib.parse, text, {"prepare_all": GateDefinition("prepare_all"), "measure_all": GateDefinition("measure_all"),
                                          "X": GateDefinition("X", [Parameter("q", ParamType.QUBIT)])})
    else:
        o = lib.outcome(lib.parse, text, X.native())
    if o[0] != "ok":
        return "inconclusive:cannot-parse-probe", [], None
    c = o[1]
    fails = []
    info = {"n": n, "views": 0, "ints": 0, "strs": 0}
    as_int = list(values)
    as_str = [refexec.bits(v, n) for v in values]
    mixed = [v if i % 2 else refexec.bits(v, n) for i, v in enumerate(values)]
    mixed_int_first = [refexec.bits(v, n) if i % 2 else v for i, v in enumerate(values)]
    mixed_late = [refexec.bits(v, n) if i >= len(values) // 2 else v for i, v in enumerate(values)]
    # strings the library accepts although they are not in canonical n-character form
    # (trailing zeros omitted, trailing newline of a log line): the readout must still be canonical
    loose = [(refexec.bits(v, n).rstrip("0") or "0") + ("\n" if i % 3 == 0 else "") for i, v in enumerate(values)]
    results = []
    np_ints = list(np.asarray(values, dtype=np.int64)) if max(values, default=0) < 2 ** 62 else None
    np_small = list(np.asarray(values, dtype=np.uint8)) if max(values, default=0) < 256 else None
    for tag, outs in (("int", as_int), ("str", as_str), ("mixed", mixed), ("mixed-int-first", mixed_int_first), ("mixed-int-then-str", mixed_late),
                      ("numpy-int64", np_ints), ("numpy-uint8", np_small),
                      ("noncanonical-str", loose)):
        if outs is None:
            continue
        o = lib.budgeted(lib.parse_output, 200000 + 400 * len(values), c, list(outs))
        if o[0] == "jaqal" and tag == "noncanonical-str":
            # refusing a non-canonical string with a JaqalError is within the property
            info["noncanonical_refused"] = info.get("noncanonical_refused", 0) + 1
            continue
        if o[0] != "ok":
            fails.append(("outputs:%s-rejected:%s" % (tag, o[0]), {"info": str(o[1:3])[:200], "n": n}))
            return "ok", fails, info
        res = o[1]
        if len(res.subcircuits) != 1 or len(res.readouts) != len(values):
            fails.append(("outputs:count", {"subcircuits": len(res.subcircuits), "readouts": len(res.readouts)}))
            return "ok", fails, info
        sc = res.subcircuits[0]
        check_views("outputs:" + tag, sc, n, fails, False)
        info["views"] += 1
        got = [(r.as_int, r.as_str) for r in res.readouts]
        exp = [(v, refexec.bits(v, n)) for v in values]
        if got != exp:
            k = next(i for i in range(len(exp)) if got[i] != exp[i])
            fails.append(("outputs:%s-interpreted-wrongly" % tag, {"position": k, "supplied": outs[k], "got": got[k], "expected": exp[k]}))
        results.append((tag, got, np.asarray(sc.relative_frequency_by_int).copy()))
        if fails:
            return "ok", fails, info
    info["ints"] = len(values)
    info["strs"] = len(values)
    a = results[0]
    for b in results[1:]:
        if a[1] != b[1] or not np.array_equal(a[2], b[2]):
            fails.append(("outputs:int-and-str-interpreted-differently", {"forms": (a[0], b[0])}))
    return "ok", fails, info


def judge_direct(case):
    """ProbabilisticSubcircuit built directly from a perturbed vector: either RuntimeError or normalised."""
    from jaqalpaq.core.result import ProbabilisticSubcircuit
    from jaqalpaq.core.algorithm.walkers import Trace

    n = case["n"]
    vec = np.asarray(case["vec"], dtype=float)
    tr = Trace([0], [1], used_qubits=list(range(n)))
    fails = []
    with warnings.catch_warnings():
        warnings.simplefilter("ignore")
        try:
            sc = ProbabilisticSubcircuit(tr, 0, probabilities=vec.copy())
        except RuntimeError:
            return "ok", [], {"n": n, "views": 0, "raised": True}
        except Exception as ex:
            return "ok", [("direct:wrong-exception:" + type(ex).__name__, {"error": str(ex)[:200]})], {"n": n, "views": 0}
    p = np.asarray(sc.simulated_probability_by_int)
    if (p < 0).any():
        fails.append(("direct:negative-probability", {"min": float(p.min()), "input": vec.tolist()[:8]}))
    if abs(p.sum() - 1) > 1e-9:
        fails.append(("direct:probabilities-do-not-sum-to-one", {"sum": float(p.sum()), "input": vec.tolist()[:8]}))
    keys = [refexec.bits(k, n) for k in range(2 ** n)]
    d = sc.simulated_probability_by_str
    if list(d.keys()) != keys or any(d[keys[k]] != p[k] for k in range(2 ** n)):
        fails.append(("direct:string-view", {}))
    return "ok", fails, {"n": n, "views": 1, "raised": False}


def judge_frequencies(case):
    """RelativeFrequencySubcircuit built directly with given frequencies (as a front end that only has the
    distribution does: fractions summing to one, or counts): both views must describe exactly these numbers."""
    from jaqalpaq.core.result import RelativeFrequencySubcircuit
    from jaqalpaq.core.algorithm.walkers import Trace

    n = case["n"]
    vec = [float(x) for x in case["vec"]]
    tr = Trace([0], [1], used_qubits=list(range(n)))
    fails = []
    o = lib.outcome(lambda: RelativeFrequencySubcircuit(tr, 0, relative_frequencies=list(vec)))
    if o[0] != "ok":
        return "skipped:cannot-construct", [], {"n": n, "views": 0}
    sc = o[1]
    keys = [refexec.bits(k, n) for k in range(2 ** n)]
    d = dict(sc.relative_frequency_by_str)
    bi = [float(x) for x in sc.relative_frequency_by_int]
    if bi != vec:
        fails.append(("frequencies:int-view-differs-from-input", {"input": vec[:8], "got": bi[:8]}))
    elif list(d.keys()) != keys or any(float(d[keys[k]]) != vec[k] for k in range(2 ** n)):
        fails.append(("frequencies:string-view-differs-from-int-view", {"input": vec[:8], "got": [d.get(k) for k in keys[:8]]}))
    dep = dict(sc.probability_by_str)
    if list(dep.keys()) != keys or any(float(dep[keys[k]]) != vec[k] for k in range(2 ** n)) or [float(x) for x in sc.probability_by_int] != vec:
        fails.append(("frequencies:deprecated-view-differs", {"input": vec[:8]}))
    if [float(x) for x in sc.relative_frequency_by_int] != vec:
        fails.append(("frequencies:changed-by-reading-views", {"input": vec[:8]}))
    return "ok", fails, {"n": n, "views": 1}


def judge(case):
    del HELD[:]
    out = judge_(case)
    nheld = len(HELD)
    if out[0] == "ok":
        check_held(out[1])
        if isinstance(out[2], dict):
            out[2]["held"] = nheld
    del HELD[:]
    return out


def judge_(case):
    m = case["mode"]
    if m == "frequencies":
        return judge_frequencies(case)
    if m == "emulator":
        return judge_emulator(case)
    if m == "outputs":
        return judge_outputs(case)
    if m == "job":
        return judge_job(case)
    return judge_direct(case)


def process(ctx, case):
    rec = ctx.rec
    st, fails, info = judge(case)
    key = [case["mode"], case.get("n"), case.get("prog"), case.get("values"), case.get("vec")]
    rec.case(key, nontrivial=bool(info and info.get("n", 0) >= 2))
    rec.count("mode:" + case["mode"])
    if st != "ok":
        rec.count(":".join(st.split(":")[:2]))
        if st.startswith("inconclusive"):
            rec.inconc(st)
        return
    rec.count("judged")
    rec.count("views-checked", info.get("views", 0))
    rec.count("views-held-and-rechecked", info.get("held", 0))
    rec.count("n=%d" % info["n"])
    rec.count("outcomes-as-int", info.get("ints", 0))
    rec.count("outcomes-as-str", info.get("strs", 0))
    if case.get("certain") is not None:
        k = refexec.bits(case["certain"], info["n"])
        if k != k[::-1]:
            rec.count("non-palindromic-certain-outcomes")
    if info.get("raised"):
        rec.count("direct:raised-RuntimeError")
    for clause, detail in fails:
        rec.violation(sig("C15", clause), detail, case)


def basis_program(rng, n):
    """X on a chosen subset -> one certain outcome; prefer non-palindromic bit patterns."""
    for _ in range(20):
        k = rng.randrange(1, 2 ** n) if n > 1 else rng.randrange(2)
        b = refexec.bits(k, n)
        if b != b[::-1] or n == 1:
            break
    body = [("gate", "prepare_all")] + [("gate", "X", ("array_item", "q", i)) for i in range(n) if (k >> i) & 1]
    if rng.random() < 0.5:
        rng.shuffle(body[1:])
    reps = rng.randint(1, 3)
    sec = body + [("gate", "measure_all")]
    prog = ("circuit", ("register", "q", n), ("loop", reps, ("sequential_block",) + tuple(sec)))
    return prog, k


def shard(ctx):
    rec = ctx.rec
    monitors.install_contracts()
    rng = ctx.rng
    maxn = 6 if ctx.quick else 8
    # (b) exhaustive outcome values for n <= 8 (quick: n <= 6), partitioned between shards
    top = 6 if ctx.quick else 8
    for n in range(1, top + 1):
        vals = list(range(2 ** n))
        chunk = 16
        for j in range(0, len(vals), chunk):
            if ctx.mine(j // chunk + n):
                process(ctx, {"mode": "outputs", "n": n, "values": vals[j:j + chunk]})
                k = j // chunk + n
                process(ctx, {"mode": "outputs", "n": n, "values": vals[j:j + chunk], "gates": ("none", "plain")[k % 2],
                              "touch": None if k % 3 == 0 else k})
                rec.count("output-lists-for-programs-without-the-harness-gate-set")
    # many shots of one outcome: tallies are counts, however large
    if ctx.index < 2:
        n = 1 + ctx.index
        many = [ctx.index] * (66000 + 500 * ctx.index) + [0, 1, 1]
        process(ctx, {"mode": "outputs", "n": n, "values": many, "many": True})
        rec.count("many-shot-output-lists")
    rec.exhaustive = True
    rec.note("exhaustive_outcomes", "every outcome 0..2^n-1 for n<=%d supplied as int, as str and mixed" % top)
    i = 0
    n_total = ctx.scale(10000, 40000)
    while i < n_total and not rec.expired():
        i += 1
        r = rng.random()
        if r < 0.3:
            n = rng.randint(1, maxn)
            prog, k = basis_program(rng, n)
            process(ctx, {"mode": "emulator", "prog": prog, "certain": k, "npseed": rng.randrange(1 << 30)})
        elif r < 0.5:
            size = rng.randint(1, maxn - 1)
            g = gen.ExecGen(rng, reg_size=(size, size), max_depth=2, body_len=(1, 2), n_maps=(0, 2), n_macros=(0, 1))
            process(ctx, {"mode": "emulator", "prog": g.program(), "npseed": rng.randrange(1 << 30)})
        elif r < 0.6:
            size = rng.randint(1, 3)
            g = gen.ExecGen(rng, reg_size=(size, size), max_depth=2, body_len=(1, 3), n_maps=(0, 1), n_macros=(0, 1), loop_counts=(1, 2, 3))
            process(ctx, {"mode": "job", "prog": g.program(), "npseed": rng.randrange(1 << 30), "executions": rng.choice([2, 3])})
        elif r < 0.8:
            n = rng.randint(7, 10)
            vals = [rng.randrange(2 ** n) for _ in range(rng.randint(1, 12))]
            process(ctx, {"mode": "outputs", "n": n, "values": vals})
        else:
            n = rng.randint(1, 4)
            v = np.abs(np.random.default_rng(rng.randrange(1 << 30)).normal(size=2 ** n))
            v = v / v.sum()
            eps = rng.choice([0, 1e-15, 1e-14, 5e-14, 1e-13, 2e-13, 1e-9, 1e-6, 1.9e-6, 2e-6, 2.1e-6, 1e-5, 1e-3])
            kind = rng.choice(["scale", "neg", "over", "shift"])
            if kind == "scale":
                v = v * (1 + eps * rng.choice([1, -1]))
            elif kind == "neg":
                v[rng.randrange(len(v))] -= eps + (0 if rng.random() < 0.5 else v.min())
            elif kind == "over":
                v = np.zeros_like(v)
                v[0] = 1 + eps
            else:
                v = v + eps
            process(ctx, {"mode": "direct", "n": n, "vec": v.tolist()})
            # frequencies given as fractions (sum one) or as counts
            fr = rng.dirichlet(np.ones(2 ** n)) if hasattr(rng, "dirichlet") else np.random.default_rng(rng.randrange(1 << 30)).dirichlet(np.ones(2 ** n))
            if rng.random() < 0.4:
                fr = np.floor(fr * 50)
            process(ctx, {"mode": "frequencies", "n": n, "vec": [float(x) for x in fr]})
        if i <= 2:
            rec.sample({"note": "see rule; sample emulator case", "i": i})
    rec.sample({"mode": "outputs", "n": 3, "values": list(range(8)), "as_str": [refexec.bits(v, 3) for v in range(8)]}, force=True)
    monitors.report_contracts(rec)


def replay(ctx, case):
    if isinstance(case.get("prog"), list):
        case = dict(case, prog=sx.unnorm(case["prog"]))
    st, fails, info = judge(case)
    for clause, detail in fails:
        ctx.rec.violation(sig("C15", clause), detail, case)
