"""C20 -- circuit equality is an equivalence consistent with meaning and text."""
import random

from .. import sx, gen, lib, meaning as M, monitors
from .common import sig, case_prog

RULE = ("random programs p (full model); for each: reflexivity, equality with the re-parse of its generated text, equality of "
        "layout-only variants, and ALL single-point mutants of each class (gate name, numeric argument, qubit index, qubit array, "
        "argument added / removed, loop count, subcircuit count / presence, block kind where the grammar allows, alias source / "
        "start / stop / step / index, let value, register size, macro parameter, macro body statement, pulse module); a mutant "
        "whose model declarations or meaning differ from p's must compare unequal in both directions; every comparison must be "
        "symmetric and must not raise; pairs of independently generated programs that compare equal must have identical "
        "declarations and meaning. Monitors: outcome counters on every __eq__ of the IR classes. non-trivial = mutant pairs; "
        "distinct = (program, mutant)")
ASSUMPTIONS = ["model-level 'meaning or declarations differ' = declarations with slice defaults made explicit, body meaning "
               "unexpanded, macro meanings with parameters named by position (unused parameter renames are equivalent mutants)"]
TIERS = {"quick": {"shards": 8, "budget_s": 180}, "thorough": {"shards": 16, "budget_s": 420}}
REQUIRE = {"programs-with-a-huge-constant-and-two-imports": 300, "same-text-parsed-after-a-near-twin": 1500, "programs-with-near-twin-statements": 300, "mutant-pairs-judged": 8000, "meaning-changing-mutants": 5000, "equivalent-mutants": 50, "layout-pairs": 300,
           "roundtrip-pairs": 300, "independent-pairs": 300, "eq:Circuit:True": 100, "eq:Circuit:False": 1000,
           "eq:GateStatement:False": 100, "eq:BlockStatement:False": 100, "eq:LoopStatement:False": 20, "eq:Register:False": 20,
           "eq:Constant:False": 20, "eq:Macro:False": 20}

_WRAPPED = [False]
EQ_COUNTS = {}


def wrap_eq():
    if _WRAPPED[0]:
        return
    import jaqalpaq.core as core
    from jaqalpaq.core.usepulses import UsePulsesStatement
    from jaqalpaq.core.parameter import AnnotatedValue
    from jaqalpaq.core.gatedef import AbstractGate

    for cls in (core.Circuit, core.BlockStatement, core.LoopStatement, core.GateStatement, core.Register, core.NamedQubit,
                core.Constant, AnnotatedValue, core.Macro, AbstractGate, UsePulsesStatement):
        if "__eq__" not in cls.__dict__:
            continue
        orig = cls.__dict__["__eq__"]

        def make(orig, name):
            def __eq__(self, other):
                r = orig(self, other)
                k = "eq:%s:%s" % (name, bool(r) if r is not NotImplemented else "NotImplemented")
                EQ_COUNTS[k] = EQ_COUNTS.get(k, 0) + 1
                return r
            return __eq__

        had_hash = cls.__dict__.get("__hash__")
        setattr(cls, "__eq__", make(orig, cls.__name__))
        if had_hash is not None:
            setattr(cls, "__hash__", had_hash)
    _WRAPPED[0] = True


def alpha(params, body):
    """Macro meaning with parameters named by position."""
    idx = {p: i for i, p in enumerate(params)}

    def go(t):
        if isinstance(t, tuple):
            if len(t) == 2 and t[0] == "param" and t[1] in idx:
                return ("param", idx[t[1]])
            return tuple(go(x) for x in t)
        return t

    return (len(params), go(body))


def model_view(prog):
    k = M.core_from_sx(prog)
    M.validate(k, {})
    body = M.meaning(k, expand_macros=False)
    macros = tuple((name, alpha(ps, b)) for name, (ps, b) in M.macro_meanings(k).items())
    return (M.declarations(k), body, macros)


def cmp(a, b):
    """(a==b, b==a) or an exception marker."""
    try:
        return ("ok", bool(a == b), bool(b == a))
    except Exception as ex:
        return ("raise", type(ex).__name__, str(ex)[:150])


def judge_pair(pa, pb, relation):
    """relation: 'mutant' | 'independent' | 'layout' | 'roundtrip'."""
    fails = []
    info = {}
    ta = sx.to_text(pa)
    oa = lib.outcome(lib.parse, ta)
    if oa[0] != "ok":
        return "skipped:a-rejected", fails, info
    ca = oa[1]
    if relation == "layout":
        tb = sx.to_text(pa, random.Random(pb))
        ob = lib.outcome(lib.parse, tb)
        if ob[0] != "ok":
            return "ok", [("layout-variant-rejected", {"text": tb, "error": ob[2]})], info
        r = cmp(ca, ob[1])
        if r[0] == "raise":
            fails.append(("eq-raises:" + r[1], {"error": r[2]}))
        elif not (r[1] and r[2]):
            fails.append(("layout-variants-unequal", {"canonical": ta, "layout": tb}))
        return "ok", fails, info
    if relation == "roundtrip":
        r0 = cmp(ca, ca)
        if r0[0] == "raise" or not r0[1]:
            fails.append(("not-reflexive", {"text": ta, "result": r0}))
        g = lib.outcome(lib.generate, ca)
        if g[0] != "ok":
            return "ok", fails, info
        ob = lib.outcome(lib.parse, g[1])
        if ob[0] != "ok":
            return "ok", fails, info  # C01's subject
        r = cmp(ca, ob[1])
        if r[0] == "raise":
            fails.append(("eq-raises:" + r[1], {"error": r[2]}))
        elif not (r[1] and r[2]):
            fails.append(("unequal-to-reparse-of-own-text", {"text": ta, "generated": g[1]}))
        return "ok", fails, info
    tb = sx.to_text(pb)
    ob = lib.outcome(lib.parse, tb)
    if ob[0] != "ok":
        return "skipped:b-rejected", fails, info
    cb = ob[1]
    try:
        va, vb = model_view(pa), model_view(pb)
    except M.MeaningError:
        return "skipped:model-invalid", fails, info
    differ = not M.tree_equal(va, vb)
    info["differ"] = differ
    r = cmp(ca, cb)
    if r[0] == "raise":
        fails.append(("eq-raises:" + r[1], {"error": r[2], "a": ta, "b": tb}))
        return "ok", fails, info
    if r[1] != r[2]:
        fails.append(("not-symmetric", {"a==b": r[1], "b==a": r[2], "a": ta, "b": tb}))
    if differ and (r[1] or r[2]):
        which = "declarations" if not M.tree_equal(va[0], vb[0]) else "body" if not M.tree_equal(va[1], vb[1]) else "macros"
        fails.append(("different-programs-compare-equal:" + which, {"a": ta, "b": tb, "diff": M.first_diff(va, vb)}))
    return "ok", fails, info


def judge_same_text_two_gate_sets(pa, pb):
    """Two parser-produced circuits of ONE text that compare equal have the same gate-level meaning, read through the
    objects they hold: the first is parsed with the gate set every program of this process uses, right after a near twin
    of the program (pb) was parsed with it; the second with a gate set of its own that no other text has seen."""
    fails = []
    from . import execcommon as X
    from .. import gateset

    ta, tb = sx.to_text(pa), sx.to_text(pb)
    shared = X.native()
    if lib.outcome(lib.parse, tb, shared)[0] != "ok":
        return "skipped:b-rejected", fails, {}
    o1 = lib.outcome(lib.parse, ta, shared)
    o2 = lib.outcome(lib.parse, ta, gateset.make(variant="A"))
    if o1[0] != "ok" or o2[0] != "ok":
        if o1[0] != o2[0]:
            fails.append(("acceptance-depends-on-what-was-parsed-before", {"shared gate set": str(o1[:3])[:150], "own gate set": str(o2[:3])[:150], "a": ta, "b": tb}))
            return "ok", fails, {}
        return "skipped:a-rejected", fails, {}
    r = cmp(o1[1], o2[1])
    if r[0] == "raise":
        return "ok", [("eq-raises:" + r[1], {"error": r[2]})], {}
    if not (r[1] and r[2]):
        fails.append(("two-parses-of-one-text-unequal", {"a": ta, "parsed before": tb}))
        return "ok", fails, {}
    try:
        k1, k2 = M.core_from_ir(o1[1]), M.core_from_ir(o2[1])
        m1 = (M.meaning(k1, expand_macros=False), tuple(M.macro_meanings(k1).items()))
        m2 = (M.meaning(k2, expand_macros=False), tuple(M.macro_meanings(k2).items()))
        try:
            f1, f2 = M.meaning(k1, expand_macros=True, env={}, resolve=True), M.meaning(k2, expand_macros=True, env={}, resolve=True)
        except M.MeaningError:
            f1 = f2 = None
    except (M.OracleError, M.MeaningError):
        return "skipped:no-meaning", fails, {}
    if not M.tree_equal(m1, m2) or not M.tree_equal(f1, f2):
        fails.append(("equal-circuits-differ-in-meaning:same-text-parsed-after-a-near-twin",
                      {"a": ta, "parsed before": tb, "diff": M.first_diff(m1, m2) if not M.tree_equal(m1, m2) else M.first_diff(f1, f2)}))
    return "ok", fails, {"twin": 1}


# ---------------------------------------------------------------------------------------
# single-point mutants
# ---------------------------------------------------------------------------------------

def mutants(prog, rng):
    """Yield (class, mutant program) for every single-point mutation site."""
    paths = []

    def collect(s, path):
        if isinstance(s, tuple):
            paths.append((path, s))
            for i, x in enumerate(s):
                collect(x, path + (i,))

    collect(prog, ())

    def put(s, path, v):
        if not path:
            return v
        return s[:path[0]] + (put(s[path[0]], path[1:], v),) + s[path[0] + 1:]

    regs = [s[1] for s in prog[1:] if s[0] in ("register", "map") and (s[0] == "register" or len(s) != 4)]
    for path, n in paths:
        if not n:
            continue
        k = n[0]
        if k == "gate":
            yield "gate-name", put(prog, path, ("gate", n[1] + "x") + n[2:])
            for j in range(2, len(n)):
                a = n[j]
                if isinstance(a, (int, float)) and not isinstance(a, bool):
                    yield "numeric-argument", put(prog, path, n[:j] + (a + 1,) + n[j + 1:])
                    if isinstance(a, int):
                        yield "numeric-argument", put(prog, path, n[:j] + (a - 1,) + n[j + 1:])
                        yield "numeric-argument-same-hash", put(prog, path, n[:j] + ((-2 if a == -1 else a + 2 ** 61 - 1),) + n[j + 1:])
                    if isinstance(a, int):
                        yield "numeric-argument-int-to-float", put(prog, path, n[:j] + (float(a),) + n[j + 1:])
                    else:
                        import math

                        yield "numeric-argument-one-ulp", put(prog, path, n[:j] + (math.nextafter(a, math.inf),) + n[j + 1:])
                        if a:
                            yield "numeric-argument-tiny-relative-change", put(prog, path, n[:j] + (a * (1 + 2 ** -36),) + n[j + 1:])
                elif isinstance(a, tuple):
                    if isinstance(a[2], int):
                        yield "qubit-index", put(prog, path, n[:j] + (("array_item", a[1], a[2] + 1),) + n[j + 1:])
                        if a[2] > 0:
                            yield "qubit-index", put(prog, path, n[:j] + (("array_item", a[1], a[2] - 1),) + n[j + 1:])
                    for other in regs:
                        if other != a[1]:
                            yield "qubit-array", put(prog, path, n[:j] + (("array_item", other, a[2]),) + n[j + 1:])
                            break
            yield "argument-added", put(prog, path, n + (1,))
            if len(n) > 2:
                yield "argument-removed", put(prog, path, n[:-1])
                if len(n) > 3:
                    yield "arguments-swapped", put(prog, path, n[:-2] + (n[-1], n[-2]))
        elif k == "loop":
            c = n[1]
            if isinstance(c, int):
                yield "loop-count", put(prog, path, ("loop", c + 1, n[2]))
                if c != 0:
                    yield "loop-count-zero", put(prog, path, ("loop", 0, n[2]))
            b = n[2]
            other = "parallel_block" if b[0] == "sequential_block" else "sequential_block"
            yield "block-kind", put(prog, path, ("loop", c, (other,) + b[1:]))
            if b[0] == "sequential_block":
                # the keyword changed: repeat N times  ->  prepare / run / measure with N shots (same count, same body)
                yield "loop-becomes-subcircuit", put(prog, path, ("subcircuit_block", c) + b[1:])
        elif k == "subcircuit_block":
            c = n[1]
            yield "subcircuit-becomes-loop", put(prog, path, ("loop", 1 if c == "" else c, ("sequential_block",) + n[2:]))
            yield "subcircuit-count", put(prog, path, (k, 2 if c in ("", 1) else (c + 1 if isinstance(c, int) else 7)) + n[2:])
            if c != 0:
                yield "subcircuit-count-zero", put(prog, path, (k, 0) + n[2:])
            if len(path) == 1:
                yield "subcircuit-presence", put(prog, path, ("sequential_block",) + n[2:])
        elif k == "sequential_block" and len(path) == 1:
            yield "subcircuit-presence", put(prog, path, ("subcircuit_block", "") + n[1:])
        elif k == "macro":
            b = n[-1]
            other = "parallel_block" if b[0] == "sequential_block" else "sequential_block"
            yield "block-kind", put(prog, path, n[:-1] + ((other,) + b[1:],))
            if len(b) > 1:
                yield "macro-body", put(prog, path, n[:-1] + (b[:-1],))
            yield "macro-body", put(prog, path, n[:-1] + (b + (("gate", "zz"),),))
            for j in range(2, len(n) - 1):
                yield "macro-parameter", put(prog, path, n[:j] + (n[j] + "_",) + n[j + 1:])
            yield "macro-parameter-added", put(prog, path, n[:-1] + ("extra_p", b))
        elif k == "let":
            v = n[2]
            yield "let-value", put(prog, path, ("let", n[1], v + 1))
            if isinstance(v, float):
                yield "let-value", put(prog, path, ("let", n[1], v * (1 + 2 ** -40) if v else 5e-324))
        elif k == "register":
            if isinstance(n[2], int):
                yield "register-size", put(prog, path, ("register", n[1], n[2] + 1))
        elif k == "map":
            if len(n) == 4 and isinstance(n[3], int) and n[3] > 0:
                yield "alias-index", put(prog, path, n[:3] + (n[3] - 1,))
            if len(n) == 6:
                for j, nm in ((3, "alias-start"), (4, "alias-stop"), (5, "alias-step")):
                    v = n[j]
                    if isinstance(v, int):
                        if j == 4 and v > 1:
                            yield nm, put(prog, path, n[:j] + (v - 1,) + n[j + 1:])
                        elif j == 5:
                            yield nm, put(prog, path, n[:j] + (v + 1,) + n[j + 1:])
                        elif j == 3:
                            yield nm, put(prog, path, n[:j] + (v + 1,) + n[j + 1:])
                    elif v is None and j == 5:
                        yield nm, put(prog, path, n[:j] + (2,) + n[j + 1:])
            for other in regs:
                if other != n[2] and other != n[1]:
                    yield "alias-source", put(prog, path, n[:2] + (other,) + n[3:])
                    break
        elif k == "usepulses":
            yield "pulse-module", put(prog, path, ("usepulses", n[1] + "x", "*"))
            # the order of two different imports is part of the header (a later module's gates win)
            nxt = path[:-1] + (path[-1] + 1,) if path else None
            if len(path) == 1 and path[0] + 1 < len(prog) and prog[path[0] + 1][0] == "usepulses" and prog[path[0] + 1] != n:
                i_ = path[0]
                yield "pulse-import-order", prog[:i_] + (prog[i_ + 1], prog[i_]) + prog[i_ + 2:]
        elif k == "parallel_block" and len(n) > 2:
            yield "statement-order", put(prog, path, (k,) + tuple(reversed(n[1:])))


def nonfinite(x):
    """A mutant may push the largest double over the edge: infinities are no Jaqal numbers."""
    if isinstance(x, float):
        return x != x or x in (float("inf"), float("-inf"))
    return isinstance(x, tuple) and any(nonfinite(v) for v in x)


def process_pair(ctx, pa, pb, relation, cls=None):
    rec = ctx.rec
    st, fails, info = judge_pair(pa, pb, relation)
    rec.case([pa, pb if relation != "layout" else ["layout", pb], relation], nontrivial=relation == "mutant")
    if st != "ok":
        rec.count(st)
        return
    rec.count(relation + "-pairs" if relation != "mutant" else "mutant-pairs-judged")
    if relation == "mutant":
        rec.count("mutation:" + cls)
        rec.count("meaning-changing-mutants" if info.get("differ") else "equivalent-mutants")
    for clause, detail in fails:
        rec.violation(sig("C20", clause + ((":" + cls) if cls else "")), detail,
                      {"a": pa, "b": pb, "relation": relation, "cls": cls})


def shard(ctx):
    rec = ctx.rec
    monitors.install_contracts()
    wrap_eq()
    rng = ctx.rng
    n = ctx.scale(3000, 20000)
    prev = None
    i = 0
    while i < n and not rec.expired():
        i += 1
        g = gen.ProgGen(rng, max_depth=rng.choice([1, 2, 3]), n_macros=(0, 2), n_lets=(0, 3), n_maps=(0, 3), body_len=(1, 4),
                        block_len=(0, 3), p_hostile_names=0.0, macro_sub=rng.random() < 0.3, p_usepulses=0.3,
                        wild_numbers=rng.random() < 0.3, allow_reg_args=False)
        prog = g.program()
        if rng.random() < 0.3:
            # two statements that differ in ONE integer argument, the two integers being ones that shortcuts confuse:
            # neighbours, and values with equal Python hash (hash(-1) == hash(-2), hash(v) == hash(v + 2**61 - 1))
            a, b = rng.choice([(-1, -2), (-2, -1), (0, 2 ** 61 - 1), (1, 2 ** 61), (3, 3 + 2 ** 61 - 1), (2, 3), (7, -7)])
            q = [s for s in prog[1:] if s[0] == "register"]
            extra = (("array_item", q[0][1], 0),) if q else ()
            prog = prog + (("gate", "tw") + extra + (a,), ("gate", "tw") + extra + (b,))
            rec.count("programs-with-near-twin-statements")
        if rng.random() < 0.25:
            # constants with values near and beyond 2**53 (where a float no longer tells neighbours apart), and two imports
            big = rng.choice([2 ** 53, 2 ** 53 + 1, 2 ** 63 - 1, 2 ** 64, 10 ** 30, -(2 ** 53) - 1])
            extra_hdr = (("usepulses", "vf.first", "*"), ("usepulses", "vf.second", "*"), ("let", "bigc", big))
            prog = (prog[0],) + extra_hdr + tuple(x for x in prog[1:] if not (x[0] == "let" and x[1] == "bigc"))
            rec.count("programs-with-a-huge-constant-and-two-imports")
        process_pair(ctx, prog, prog, "roundtrip")
        process_pair(ctx, prog, rng.randrange(1 << 30), "layout")
        if prev is not None:
            process_pair(ctx, prev, prog, "independent")
        # a structurally identical copy generated independently must compare equal (and is symmetric)
        prev = prog
        ms = list(mutants(prog, rng))
        if ctx.quick and len(ms) > 40:
            ms = rng.sample(ms, 40)
        for cls, m in ms:
            if m == prog or not sx.legal_nesting(m) or nonfinite(m):
                continue
            process_pair(ctx, prog, m, "mutant", cls)
        if i <= 2:
            rec.sample({"program": sx.to_text(prog), "mutants": [(c, sx.to_text(m)) for c, m in ms[:3]]})
    # programs over the native gate set, each parsed right after a near twin (one alias bound / index / argument changed)
    j = 0
    while j < ctx.scale(1500, 15000) and not rec.expired():
        j += 1
        g = gen.ExecGen(rng, max_depth=rng.choice([1, 2]), n_macros=(0, 2), n_lets=(0, 2), n_maps=(1, 4), body_len=(1, 3))
        prog = g.program()
        ms = [(c_, m) for c_, m in mutants(prog, rng) if m != prog and sx.legal_nesting(m) and not nonfinite(m)]
        for cls, m in rng.sample(ms, min(4, len(ms))):
            st, fails, info = judge_same_text_two_gate_sets(prog, m)
            rec.case([prog, m, "same-text"], nontrivial=True)
            if st != "ok":
                rec.count(st)
                continue
            rec.count("same-text-parsed-after-a-near-twin")
            for clause, detail in fails:
                rec.violation(sig("C20", clause), detail, {"a": prog, "b": m, "relation": "same-text", "cls": cls})
    for k, v in EQ_COUNTS.items():
        rec.counters[k] = v
    monitors.report_contracts(rec)


def replay(ctx, case):
    pa = sx.unnorm(case["a"]) if isinstance(case["a"], list) else case["a"]
    pb = case["b"]
    if isinstance(pb, list):
        pb = sx.unnorm(pb)
    if case["relation"] == "same-text":
        st, fails, info = judge_same_text_two_gate_sets(pa, pb)
    else:
        st, fails, info = judge_pair(pa, pb, case["relation"])
    for clause, detail in fails:
        ctx.rec.violation(sig("C20", clause + ((":" + case["cls"]) if case.get("cls") else "")), detail, case)
