"""C08 -- execution terminates and yields one readout per subcircuit visit, in order."""
import numpy as np

from .. import sx, gen, lib, meaning as M, monitors, minimise, gateset, refexec
from .common import prog_features, sig, case_prog
from . import execcommon as X
from . import bracket

RULE = ("executable programs: (a) random nestings of loops (counts 0,1,2,3, let-valued, overridden), sequential blocks, "
        "subcircuit blocks and explicit prepare/measure sections to depth 5; (b) bounded-exhaustive bracket sequences (see "
        "C12) that the reference accepts. History = returned readouts and per-subcircuit readout lists of the emulator, and of "
        "parse_jaqal_output_list on an unambiguous output list (output k = k mod 2^n, alternating int/str). Termination is "
        "judged in logical steps (sys.monitoring LINE events in the tree-walking modules) against a budget proportional to the "
        "unrolled program. non-trivial = at least one subcircuit inside a loop; distinct = S-expression + overrides")
ASSUMPTIONS = ["termination restated as bounded progress: budget = 20000 + 400 * (unrolled size + subcircuits * nodes) * (loop depth + 1) line events",
               "visit sequence judged only when no subcircuit straddles a loop boundary (others: termination and bookkeeping only)"]
TIERS = {"quick": {"shards": 8, "budget_s": 200}, "thorough": {"shards": 16, "budget_s": 420}}
REQUIRE = {"bracket-programs-built-from-S-expressions": 1000, "overrides-to-a-negative-count": 100, "overrides-applied-by-the-parser": 200, "macros-expanded-before-overrides": 500, "job-executions-observed": 300, "zero-loop-around-subcircuit": 30, "visit-sequences-compared": 300, "output-lists-compared": 300,
           "let-count": 30, "override-count": 10, "readouts-observed": 1000}


def judge(case):
    prog = case_prog(case)
    ov = dict(case.get("ov") or {})
    st, s = X.setup(prog, ov, assemble=case.get("assemble", False))
    if st == "skipped:no-reference-meaning:negative-count" and hasattr(s, "c"):
        # a repetition count below zero: what it means is not this property's business, but the call comes back
        o = X.run(s, ov, seed=1, budget=400000)
        if o[0] == "budget":
            return "ok", [("emulator-step-budget-exceeded:negative-repetition-count", {"budget": 400000})], {"subs": 0, "visits": 0, "straddle": False, "n": 0, "budget": 400000, "negative": 1}
        return "skipped:negative-count-but-terminates", [], None
    if st.startswith("skipped:input-rejected:JaqalError") and not case.get("assemble") and X.refused_when_built(prog, ov, case.get("variant", "A")):
        # valid, legally nested, well bracketed: refused before it could be executed
        return "ok", [("valid-program-not-executed:refused-when-built", {"error": str(s.parse_outcome[2])[:200]})], {"subs": 0, "visits": 0, "straddle": False, "n": 0, "budget": 0}
    if st != "ok":
        return st, [], None
    P = s.P
    try:
        scan = P.flat_scan()
    except refexec.Reject as ex:
        return "skipped:not-well-bracketed:" + ex.rule, [], None
    if P.overlap() is not None:
        return "skipped:overlapping-parallel", [], None
    if P.repeated_qubit_gate() is not None:
        return "skipped:gate-on-repeated-qubit", [], None
    if scan["trailing_gates"]:
        return "skipped:trailing-gates", [], None
    subs = scan["subs"]
    straddle = P.straddling(subs)
    visits = P.visits(subs)
    budget = X.budget_for(P)
    info = {"subs": len(subs), "visits": len(visits), "straddle": bool(straddle), "n": s.n, "budget": budget}
    fails = []
    if case.get("order") == "ML":
        # macros expanded while the lets are still symbolic; the overrides are applied to the expanded circuit
        om = lib.outcome(lib.expand_macros, s.c)
        if om[0] != "ok":
            return "skipped:expand-macros-first-rejected", [], info
        s.c = om[1]
    if case.get("order") == "PLM" and ov:
        # the parser substitutes lets and aliases itself, under the overrides; the result is run as it is
        op = lib.outcome(lib.parse, s.text, X.native(), expand_let_map=True, override_dict=dict(ov))
        if op[0] != "ok":
            return "skipped:parser-expand-let-map-" + op[0], [], info
        s.c = op[1]
        ov = {}
    if case.get("job"):
        return judge_job(s, ov, subs, straddle, info, budget)
    o = X.run(s, ov, seed=case.get("npseed", 1), budget=budget)
    if o[0] == "budget":
        return "ok", [("emulator-step-budget-exceeded", {"budget": budget, "unrolled": P.unrolled_size()})], info
    if o[0] == "jaqal":
        # the reference finds the program valid and well bracketed: it has visits, so it must be executed
        return "ok", [("valid-program-not-executed", {"error": o[2], "visits-expected": len(visits)})], info
    if o[0] == "exc":
        return "ok", [("emulator-raised:" + o[1], {"error": o[2]})], info
    info["steps"] = o[2]
    res = o[1]
    rs, ros = X.result_view(res)
    info["readouts"] = len(ros)
    fails += check_history("emulator", rs, ros, subs, visits, straddle, s.n)
    # every sampled outcome has non-zero probability in its subcircuit
    for k, (idx, sub, as_int, as_str) in enumerate(ros):
        if 0 <= sub < len(rs) and rs[sub]["probs"] is not None:
            if not (0 <= as_int < len(rs[sub]["probs"])) or rs[sub]["probs"][as_int] <= 0:
                fails.append(("sampled-outcome-has-zero-probability", {"readout": k, "subcircuit": sub, "as_int": as_int}))
                break
    # hardware output list of matching length, unambiguous values
    if not straddle:
        nout = len(visits)
        outs = []
        for k in range(nout):
            v = k % (2 ** s.n)
            outs.append(v if k % 2 == 0 else refexec.bits(v, s.n))
        c = s.c
        if ov:
            oo = lib.outcome(lib.fill_in_let, c, ov)
            c = oo[1] if oo[0] == "ok" else c
        o2 = lib.budgeted(lib.parse_output, budget, c, list(outs))
        if o2[0] == "budget":
            fails.append(("output-parser-step-budget-exceeded", {"budget": budget}))
        elif o2[0] == "exc":
            fails.append(("output-parser-raised:" + o2[1], {"error": o2[2], "outputs": outs[:6]}))
        elif o2[0] == "jaqal":
            fails.append(("output-parser-rejected", {"error": o2[2]}))
        else:
            info["steps_out"] = o2[2]
            rs2, ros2 = X.result_view(o2[1])
            fails += check_history("output-list", rs2, ros2, subs, visits, straddle, s.n)
            for k, (idx, sub, as_int, as_str) in enumerate(ros2):
                if k < nout and as_int != k % (2 ** s.n):
                    fails.append(("output-list:readout-carries-wrong-value", {"k": k, "expected": k % (2 ** s.n), "got": as_int}))
                    break
            info["outputs"] = nout
    return "ok", fails, info


def X_visits(s, subs):
    return s.P.visits(subs)


def judge_job(s, ov, subs, straddle, info, budget):
    """The job interface: job = backend(circuit); job.execute() any number of times.  After every execution each
    subcircuit's relative frequencies must count exactly the readouts attributed to it (bookkeeping clause only: the
    statement does not say whether a re-executed job accumulates or starts over)."""
    import numpy as np
    from jaqalpaq.emulator.unitary import UnitarySerializedEmulator

    c = s.c
    if ov:
        oo = lib.outcome(lib.fill_in_let, c, ov)
        if oo[0] != "ok":
            return "skipped:fill-in-let-rejected", [], info
        c = oo[1]
    # what run_jaqal_circuit hands to a backend: subcircuits expanded, lets substituted, macros expanded
    o = lib.outcome(lambda: UnitarySerializedEmulator()(lib.expand_macros(lib.fill_in_let(lib.expand_subcircuits(c)))))
    if o[0] != "ok":
        return "skipped:job-not-created:" + o[1], [], info
    job = o[1]
    fails = []
    info["job_executions"] = 0
    for k in range(3):
        np.random.seed(k + 1)
        o = lib.budgeted(job.execute, budget)
        if o[0] == "budget":
            return "ok", [("job:step-budget-exceeded", {"execution": k + 1})], info
        if o[0] != "ok":
            if o[0] == "exc":
                fails.append(("job:execute-raised:" + o[1], {"execution": k + 1, "error": o[2]}))
            return "ok", fails, info
        info["job_executions"] += 1
        res = o[1]
        info["readouts"] = len(res.readouts)
        for i, sc in enumerate(res.subcircuits):
            own = list(sc.readouts)  # the readouts the subcircuit itself lists (a re-executed job may keep the earlier ones)
            counts = np.zeros(2 ** s.n)
            for r in own:
                if 0 <= r.as_int < 2 ** s.n:
                    counts[r.as_int] += 1
            got = np.asarray(sc.relative_frequency_by_int, dtype=float)
            if got.shape != counts.shape or not np.array_equal(got, counts):
                fails.append(("job:relative-frequencies-do-not-count-own-readouts", {"execution": k + 1, "subcircuit": i,
                                                                                    "own_readouts": len(own), "frequencies": got.tolist()}))
                return "ok", fails, info
            if any(r.subcircuit is not sc for r in own):
                fails.append(("job:readout-listed-by-another-subcircuit", {"execution": k + 1, "subcircuit": i}))
                return "ok", fails, info
        # the readouts of this execution, in order, one per visit
        if not straddle:
            seq = [r.subcircuit.index for r in res.readouts]
            vis = X_visits(s, subs)
            if seq[-len(vis):] != vis if vis else False:
                fails.append(("job:visit-sequence", {"execution": k + 1, "expected": vis[:20], "got": seq[-len(vis):][:20]}))
                return "ok", fails, info
    return "ok", fails, info


def check_history(tag, rs, ros, subs, visits, straddle, n):
    fails = []
    if len(rs) != len(subs):
        return [(tag + ":subcircuit-count", {"expected": len(subs), "got": len(rs)})]
    for i, sc in enumerate(rs):
        if sc["index"] != i:
            fails.append((tag + ":subcircuit-not-in-flat-order", {"position": i, "index": sc["index"]}))
            return fails
    for k, r in enumerate(ros):
        if r[0] != k:
            fails.append((tag + ":readout-index", {"position": k, "index": r[0]}))
            return fails
    seq = [r[1] for r in ros]
    if not straddle and seq != visits:
        fails.append((tag + ":visit-sequence", {"expected": visits[:20], "got": seq[:20], "len": (len(visits), len(seq))}))
    # each subcircuit's readouts are exactly the sub-sequence attributed to it; frequencies count them
    for i, sc in enumerate(rs):
        mine = [r[0] for r in ros if r[1] == i]
        if sc["readouts"] != mine:
            fails.append((tag + ":subcircuit-readouts", {"subcircuit": i, "expected": mine[:10], "got": sc["readouts"][:10]}))
            break
        counts = np.zeros(2 ** n)
        for r in ros:
            if r[1] == i and 0 <= r[2] < 2 ** n:
                counts[r[2]] += 1
        if sc["rf"].shape != counts.shape or not np.array_equal(sc["rf"], counts):
            fails.append((tag + ":relative-frequencies", {"subcircuit": i, "expected": counts.tolist(), "got": sc["rf"].tolist()}))
            break
    return fails


def _clauses(case):
    return {f[0] for f in judge(case)[1]}


def zero_loop_around_sub(prog):
    for s in sx.walk(prog):
        if s[0] == "loop" and s[1] == 0:
            for x in sx.walk(s[2]):
                if x[0] == "subcircuit_block" or (x[0] == "gate" and x[1] == "prepare_all"):
                    return True
    return False


def process(ctx, case, seen):
    rec = ctx.rec
    prog = case_prog(case)
    st, fails, info = judge(case)
    in_loop = any(s[0] == "loop" and any(x[0] == "subcircuit_block" or (x[0] == "gate" and x[1] in ("prepare_all", "measure_all"))
                                         for x in sx.walk(s[2])) for s in sx.walk(prog))
    rec.case([prog, sorted((case.get("ov") or {}).items())], nontrivial=in_loop)
    if st != "ok":
        rec.count(":".join(st.split(":")[:3]))
        if st.startswith("inconclusive"):
            rec.inconc(st)
        return
    rec.count("judged")
    rec.count("readouts-observed", info.get("readouts", 0))
    if case.get("order") == "ML":
        rec.count("macros-expanded-before-overrides")
    if case.get("order") == "PLM":
        rec.count("overrides-applied-by-the-parser")
    if case.get("job"):
        rec.count("job-executions-observed", info.get("job_executions", 0))
        for clause, detail in fails:
            rec.violation(sig("C08", clause), detail, case)
        return
    if "steps" in info:
        rec.maximum("max_steps_over_budget", round(info["steps"] / info["budget"], 4))
    if "steps_out" in info:
        rec.maximum("max_steps_over_budget_output_parser", round(info["steps_out"] / info["budget"], 4))
    if not info["straddle"]:
        rec.count("visit-sequences-compared")
        if "outputs" in info:
            rec.count("output-lists-compared")
    else:
        rec.count("skipped-visit-sequence:straddling")
    if zero_loop_around_sub(prog):
        rec.count("zero-loop-around-subcircuit")
    f = prog_features(prog)
    if "let-or-param-count" in f:
        rec.count("let-count")
        if case.get("ov"):
            rec.count("override-count")
    for clause, detail in fails:
        key = (clause, tuple(sorted(f)))
        seen[key] = seen.get(key, 0) + 1
        if seen[key] > 2:
            rec.count("unminimised-repeat:" + clause)
            continue
        base = {k: v for k, v in case.items() if k != "prog"}
        small = minimise.minimise(prog, lambda p: clause in _clauses(dict(base, prog=p)), budget=150)
        small_case = dict(base, prog=small)
        d2 = [x for x in judge(small_case)[1] if x[0] == clause]
        feats = prog_features(small)
        if zero_loop_around_sub(small):
            feats.add("zero-loop-around-subcircuit")
        if small_case.get("order") == "ML":
            feats.add("macros-expanded-before-overrides")
        if small_case.get("order") == "PLM":
            feats.add("overrides-applied-by-the-parser")
        rec.violation(sig("C08", clause, feats), d2[0][1] if d2 else detail, small_case)


def count_override(rng, prog):
    ov = {}
    for s in prog[1:]:
        if s[0] == "let" and isinstance(s[2], int) and 0 <= s[2] <= 4 and rng.random() < 0.5:
            ov[s[1]] = rng.randint(0, 3)
    return ov


def shard(ctx):
    rec = ctx.rec
    monitors.install_contracts()
    n = ctx.scale(9600, 80000)
    seen = {}
    i = 0
    # part (b): bracket sequences (shared enumerator with C12), accepted ones only are judged
    quota_b = ctx.scale(12000, 400000)
    for j, prog in enumerate(bracket.enumerate_programs(3 if ctx.quick else 4, 2)):
        if not ctx.mine(j):
            continue
        if quota_b <= 0 or rec.time_left() < (rec.deadline - rec.t0) * 0.6:
            break
        quota_b -= 1
        process(ctx, {"prog": prog, "npseed": j}, seen)
        rec.count("bracket-programs")
        if j % 3 == 0:
            # the same program built from its S-expression, subcircuit blocks directly as loop bodies
            process(ctx, {"prog": prog, "npseed": j, "assemble": "build"}, seen)
            rec.count("bracket-programs-built-from-S-expressions")
    while i < n and not rec.expired():
        i += 1
        rng = ctx.rng
        size = rng.choice([1, 1, 2, 2, 3])
        g = gen.ExecGen(rng, reg_size=(size, size), max_depth=rng.choice([2, 3, 4, 5]), body_len=(1, 4), n_maps=(0, 1),
                        n_macros=(0, 3), n_lets=(1, 3), p_let_count=0.5, loop_counts=(0, 0, 1, 2, 3), allow_par=False,
                        p_shadow=0.7, p_section_macro=0.6)
        prog = g.program()
        case = {"prog": prog, "npseed": rng.randrange(1 << 30)}
        if rng.random() < 0.5:
            ov = count_override(rng, prog)
            if ov:
                case["ov"] = ov
                if rng.random() < 0.1:
                    k_ = rng.choice(sorted(ov))
                    ov[k_] = -rng.randint(1, 3)
                    rec.count("overrides-to-a-negative-count")
        r = rng.random()
        if case.get("ov") and rng.random() < 0.3:
            case["order"] = "PLM"
        elif r < 0.2:
            case["order"] = "ML"
        elif r < 0.3:
            case["job"] = True
        process(ctx, case, seen)
        if i <= 3:
            rec.sample({"ov": case.get("ov"), "text": sx.to_text(prog)})
    monitors.report_contracts(rec)


def replay(ctx, case):
    st, fails, info = judge(case)
    prog = case_prog(case)
    for clause, detail in fails:
        feats = prog_features(prog)
        if zero_loop_around_sub(prog):
            feats.add("zero-loop-around-subcircuit")
        ctx.rec.violation(sig("C08", clause, feats), detail, case)
