"""C01 -- generated Jaqal text parses back to the same circuit (round trip)."""
from .. import sx, gen, lib, meaning as M, monitors, minimise
from . import builder_route
from .common import header_diff, native_names, prog_features, sig, case_prog, err_class

RULE = ("programs generated from the full header/body model (lets of any sign/magnitude incl. exponent-repr floats, "
        "let-sized registers, whole/single/strided aliases with literal/let/defaulted bounds, pulse imports, macros, "
        "nested seq/par/loop/subcircuit) entering through text->parse and through S-expression->build; "
        "distinct = distinct program S-expression + route; non-trivial = has at least one body statement or macro")
ASSUMPTIONS = ["reference meaning (vf/meaning.py) reads IR objects through public attributes only",
               "autoload_pulses=False: pulse imports are kept as statements, not loaded"]
TIERS = {"quick": {"shards": 8, "budget_s": 180}, "thorough": {"shards": 16, "budget_s": 300}}
REQUIRE = {"route:keyword-calls": 2000, "shards-whose-first-program-writes-integral-floats": 2, "derived-circuits-judged": 300, "route:builder": 500, "route:text": 50, "route:build": 50, "route:build-lists": 50, "lit:float-exp": 5, "node:subcircuit_block": 20, "map:6": 20, "node:macro": 20}


def build_circuit(prog, route, bseed=0):
    if route == "text":
        return lib.parse(sx.to_text(prog))
    if route == "builder":
        # the object-oriented CircuitBuilder API used the documented way (objects built at once or unevaluated, numpy numbers)
        return builder_route.via_builder(prog, bseed)[0]
    if route == "keyword-calls":
        # every statement re-made by calling its definition with keyword arguments in another order (definition(**kwargs)
        # is documented to give the statement the positional call gives)
        from .. import apiroute

        return apiroute.rebuild_with_keyword_calls(lib.parse(sx.to_text(prog)), bseed)[0]
    if route == "derived":
        return build_derived(prog, bseed)[0]
    if route == "build-lists":
        return lib.build(_lists(prog))
    return lib.build(prog)


def derive_program(prog, rseed):
    """The model of the derived circuit: every macro also exists as a renamed copy right after the original, and
    top-level calls go to the copy or to the original."""
    import random

    rng = random.Random(rseed)
    taken = {s[1] for s in sx.walk(prog) if s[0] in ("gate", "macro", "let", "register", "map")}
    names = {}
    for s in prog[1:]:
        if s[0] == "macro":
            n = s[1] + "_c"
            while n in taken:
                n += "c"
            taken.add(n)
            names[s[1]] = n
    if not names:
        return None, None
    out = [prog[0]]
    for s in prog[1:]:
        if s[0] == "macro":
            out.append(s)
            out.append(("macro", names[s[1]]) + tuple(s[2:]))
        elif s[0] == "gate" and s[1] in names and rng.random() < 0.6:
            out.append(("gate", names[s[1]]) + tuple(s[2:]))
        else:
            out.append(s)
    return tuple(out), names


def build_derived(prog, rseed):
    """A circuit put together from the parts of another circuit that has already been written out once: its header
    objects and macros are reused as objects, each macro also as a renamed copy (AbstractGate.copy(name=...))."""
    import random

    model, names = derive_program(prog, rseed)
    if model is None:
        raise lib.JaqalError("no macro to derive from")
    first = lib.parse(sx.to_text(prog))
    lib.generate(first)
    rng = random.Random(rseed + 1)
    expr = ["circuit"]
    for s in model[1:]:
        k = s[0]
        if k == "let" and rng.random() < 0.5:
            expr.append(first.constants[s[1]])
        elif k in ("register", "map") and rng.random() < 0.5 and not any(isinstance(x, str) for x in s[2:] if k == "register"):
            expr.append(first.registers[s[1]])
        elif k == "macro":
            if s[1] in first.macros:
                expr.append(first.macros[s[1]])
            else:
                orig = [o for o, n in names.items() if n == s[1]][0]
                expr.append(first.macros[orig].copy(name=s[1]))
        else:
            expr.append(s)
    return lib.build(expr), model


def _lists(x):
    return [_lists(v) for v in x] if isinstance(x, tuple) else x


def judge(case):
    """Returns (status, failures): status 'ok' | 'skipped:<why>'; failures = [(clause, detail)]."""
    prog = case_prog(case)
    route = case.get("route", "text")
    if not sx.legal_nesting(prog):
        return "skipped:illegal-nesting", []
    o = lib.outcome(build_circuit, prog, route, case.get("bseed", 0))
    if o[0] != "ok":
        return "skipped:input-rejected:%s" % o[1], []
    c = o[1]
    fails = []
    if route == "derived":
        # the derived circuit has to be the one its model describes before its round trip is judged (what copy() and
        # build() do with re-used objects is not this property's business: a mismatch is not judged)
        om = lib.outcome(lib.parse, sx.to_text(derive_program(prog, case.get("bseed", 0))[0]))
        if om[0] != "ok":
            return "skipped:derived-model-rejected", []
        try:
            mm_c = tuple(M.macro_meanings(M.core_from_ir(c)).items())
            mm_m = tuple(M.macro_meanings(M.core_from_ir(om[1])).items())
            if not M.tree_equal(mm_c, mm_m) or not (c == om[1]):
                return "skipped:derived-circuit-differs-from-model", []
        except M.OracleError as ex:
            return "inconclusive:oracle:%s" % ex, fails
    o = lib.outcome(lib.generate, c)
    if o[0] != "ok":
        return "ok", [("generate-raised:" + o[1], {"error": o[2]})]
    t = o[1]
    if not isinstance(t, str):
        return "ok", [("generate-not-text", {"type": type(t).__name__})]
    o = lib.outcome(lib.parse, t)
    if o[0] != "ok":
        return "ok", [("reparse-rejected:" + ("" if o[0] == "jaqal" else o[1] + ":") + err_class(o[2]),
                      {"error": o[2], "text": t})]
    c2 = o[1]
    try:
        eq = (c2 == c) and (c == c2)
    except Exception as ex:
        eq = None
        fails.append(("eq-raised:" + type(ex).__name__, {"error": str(ex), "text": t}))
    if eq is False:
        fails.append(("reparse-unequal", {"text": t, "a": repr(c)[:600], "b": repr(c2)[:600]}))
    # the harness's own comparison of meaning and declarations (a weakened __eq__ cannot hide a loss)
    try:
        k1, k2 = M.core_from_ir(c), M.core_from_ir(c2)
        hd = header_diff(k1, k2)
        if hd:
            fails.append(("header-changed:" + "+".join(h[0] for h in hd), {"diff": hd, "text": t}))
        if native_names(c) != native_names(c2):
            pass  # anonymous gate tables are an artefact of parsing order, not part of the text
        m1 = M.meaning(k1, expand_macros=False)
        m2 = M.meaning(k2, expand_macros=False)
        if not M.tree_equal(m1, m2):
            fails.append(("meaning-changed", {"diff": M.first_diff(m1, m2), "text": t}))
        mm1 = M.macro_meanings(k1)
        mm2 = M.macro_meanings(k2)
        if not M.tree_equal(tuple(mm1.items()), tuple(mm2.items())):
            fails.append(("macro-changed", {"diff": M.first_diff(tuple(mm1.items()), tuple(mm2.items())), "text": t}))
        try:
            f1 = M.full_meaning(k1)
        except M.MeaningError:
            f1 = None
        if f1 is not None:
            try:
                f2 = M.full_meaning(k2)
            except M.MeaningError as ex:
                f2 = ("error", str(ex))
            if not M.tree_equal(f1, f2):
                fails.append(("full-meaning-changed", {"diff": M.first_diff(f1, f2), "text": t}))
    except M.OracleError as ex:
        return "inconclusive:oracle:%s" % ex, fails
    o = lib.outcome(lib.generate, c2)
    if o[0] != "ok":
        fails.append(("regenerate-raised:" + o[1], {"error": o[2]}))
    elif o[1] != t:
        fails.append(("regenerate-differs", {"first": t, "second": o[1]}))
    return "ok", fails


def _clauses(case):
    st, fails = judge(case)
    return {f[0] for f in fails}


def process(ctx, case, seen):
    rec = ctx.rec
    prog = case_prog(case)
    st, fails = judge(case)
    body = [s for s in prog[1:] if s[0] not in sx.HEADER]
    rec.case([prog, case.get("route")], nontrivial=bool(body))
    rec.count("route:" + case.get("route", "text"))
    if st != "ok":
        rec.count(st.split(":")[0] + ":" + st.split(":")[1])
        if st.startswith("inconclusive"):
            rec.inconc(st)
        elif st.startswith("skipped"):
            rec.count("skipped-total")
        return
    rec.count("judged")
    if case.get("route") == "derived":
        rec.count("derived-circuits-judged")
    for clause, detail in fails:
        key = (clause, tuple(sorted(prog_features(prog))))
        seen[key] = seen.get(key, 0) + 1
        if seen[key] > 2:
            rec.count("unminimised-repeat:" + clause)
            continue
        small = minimise.minimise(prog, lambda p: clause in _clauses({"prog": p, "route": case.get("route"), "bseed": case.get("bseed", 0)}), budget=250)
        small_case = {"prog": small, "route": case.get("route"), "bseed": case.get("bseed", 0)}
        st2, fails2 = judge(small_case)
        d2 = [f for f in fails2 if f[0] == clause]
        rec.violation(sig("C01", clause, prog_features(small)), d2[0][1] if d2 else detail, small_case)


def shard(ctx):
    rec = ctx.rec
    monitors.install_contracts()
    n = ctx.scale(48000, 300000)
    seen = {}
    i = 0
    if ctx.index % 2 == 1:
        # whatever a process remembers from the first time it wrote a number: in every other shard the first program holds
        # the small integral values as FLOATS (in the other shards they first occur as integers, as sizes and indices)
        warm = ("circuit", ("register", "q", 2), ("gate", "wf", ("array_item", "q", 0)) + tuple(float(k) for k in range(2, 13)) + (-1.0, -2.0, -3.0, 100.0),
                ("gate", "wi", ("array_item", "q", 1)) + tuple(range(2, 13)))
        process(ctx, {"prog": warm, "route": "text"}, seen)
        rec.count("shards-whose-first-program-writes-integral-floats")
    while i < n and not rec.expired():
        i += 1
        rng = ctx.rng
        g = gen.ProgGen(rng, max_depth=rng.choice([2, 3, 4, 6]), need_register=rng.random() < 0.9,
                        p_hostile_names=rng.choice([0.0, 0.15, 0.3]), macro_sub=rng.random() < 0.3)
        prog = g.program()
        route = "text" if rng.random() < 0.5 else rng.choice(["build", "build-lists", "builder", "builder"])
        case = {"prog": prog, "route": route}
        if route == "builder":
            case["bseed"] = rng.randrange(1 << 30)
        for k, v in sx.features(prog).items():
            if k != "depth":
                rec.count(k, v)
            else:
                rec.maximum("max_depth", v)
        lits = [a for s in sx.walk(prog) if s[0] in ("gate", "let") for a in s[2:] if isinstance(a, float)]
        if any("e" in repr(a) for a in lits):
            rec.count("lit:float-exp")
        process(ctx, case, seen)
        if i % 8 == 3:
            process(ctx, {"prog": prog, "route": "keyword-calls", "bseed": rng.randrange(1 << 30)}, seen)
        if i % 6 == 0 and any(x[0] == "macro" for x in prog[1:]):
            # the same program once more: parsed, written out, and a second circuit derived from its parts
            process(ctx, {"prog": prog, "route": "derived", "bseed": rng.randrange(1 << 30)}, seen)
        if i <= 3:
            rec.sample({"route": route, "text": sx.to_text(prog)})
    if rec.counters.get("skipped-total", 0) > 0.05 * max(1, rec.evaluations):
        rec.inconc("more than 5%% of generated programs were rejected on input (%d of %d)" % (
            rec.counters.get("skipped-total", 0), rec.evaluations))
    monitors.report_contracts(rec)


def replay(ctx, case):
    st, fails = judge(case)
    prog = case_prog(case)
    for clause, detail in fails:
        ctx.rec.violation(sig("C01", clause, prog_features(prog)), detail, case)
