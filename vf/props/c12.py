"""C12 -- only well-bracketed prepare/measure programs are executed."""
import numpy as np

from .. import sx, gen, lib, meaning as M, monitors, minimise, gateset, refexec
from .common import prog_features, sig, case_prog
from . import execcommon as X
from . import bracket

RULE = ("bounded-exhaustive bracket sequences: every sequence of N leaves from {prepare_all, measure_all, gate} with B "
        "non-crossing containers from {loop 0/1/2 with sequential body, loop 0/1/2 with single-branch parallel body, sequential "
        "block, single-branch parallel block, macro call, subcircuit block around gates} (quick: N<=4,B<=1 complete and every 7th "
        "program of N<=3,B<=2; thorough: N<=5,B<=1 and N<=4,B<=2 complete, "
        "N<=7,B<=4 sampled), plus random larger programs with prepare/measure misplaced. Oracle = flat-order scan transcribed "
        "from the property statement; accepted programs also have subcircuit count and per-subcircuit state compared. "
        "non-trivial = program has at least one container and one prepare or measure; distinct = S-expression")
ASSUMPTIONS = ["programs whose only issue is gates after a trailing unmatched prepare_all are not judged (statement ambiguous)",
               "termination of accepted programs is C08's clause: a step-budget overrun here is inconclusive for C12"]
TIERS = {"quick": {"shards": 8, "budget_s": 480}, "thorough": {"shards": 16, "budget_s": 480}}
REQUIRE = {"programs-run-after-their-macros-were-expanded:M": 200, "programs-run-after-their-macros-were-expanded:PM": 50, "results-checked-for-one-object-per-pair": 3000, "bracket-programs-built-from-S-expressions": 1000, "macro-whose-body-is-a-subcircuit-block": 300, "circuits-grown-between-runs": 500, "two-level-macro-programs:G": 200, "two-level-macro-programs:S": 100, "bracket-programs-through-CircuitBuilder": 150, "built-through-CircuitBuilder": 300, "idle-gate-variants": 2000, "loop-count-overridden-programs": 1000, "object-assembled-programs": 2000, "ref-accept": 500, "ref-reject:measure-without-prepare": 100, "ref-reject:gate-outside-subcircuit": 100,
           "ref-reject:measure-in-loop-closes-earlier-prepare": 50, "states-compared": 500}


def judge(case):
    prog = case_prog(case)
    ov = dict(case.get("ov") or {})
    asm = case.get("assemble")
    st, s = X.setup(prog, ov or None, assemble=("builder", case.get("bseed", 0)) if asm == "builder" else ("build" if asm == "build" else bool(asm)))
    if st.startswith("skipped:input-rejected:JaqalError") and asm in (None, False, "build") and X.refused_when_built(prog, ov):
        # a well-bracketed, legally nested program over the gate set, refused before it could run
        return "ok", [("rejects-acceptable-program:when-built", {"error": str(s.parse_outcome[2])[:200]})], {"ref": "accept"}
    if st != "ok":
        return st, [], None
    if case.get("order") == "ML":
        # macros expanded while the loop counts are still symbolic; the overrides reach the expanded circuit
        om = lib.outcome(lib.expand_macros, s.c)
        if om[0] != "ok":
            return "skipped:expand-macros-first-rejected", [], None
        s.c = om[1]
    if case.get("pre") == "M":
        # the user expands the macros, then runs the result (the emulator's own passes meet a circuit without macros)
        om = lib.outcome(lib.expand_macros, s.c)
        if om[0] != "ok":
            return "skipped:expand-macros-first-rejected", [], None
        s.c = om[1]
    elif case.get("pre") == "PM" and not asm:
        # ... or asks the parser to do so
        om = lib.outcome(lib.parse, s.text, X.native(), expand_macro=True)
        if om[0] != "ok":
            return "skipped:expand-macros-first-rejected", [], None
        s.c = om[1]
    P = s.P
    info = {}
    if case.get("pre"):
        info["pre"] = case["pre"]
    if P.overlap() is not None:
        return "skipped:overlapping-parallel", [], None
    if P.repeated_qubit_gate() is not None:
        return "skipped:gate-on-repeated-qubit", [], None
    try:
        scan = P.flat_scan()
        rule = None
    except refexec.Reject as ex:
        scan = None
        rule = ex.rule
    if scan is not None and scan["trailing_gates"]:
        return "skipped:trailing-gates-ambiguous", [], None
    info["ref"] = "accept" if rule is None else "reject:" + rule
    if case.get("grow"):
        # a circuit put together in stages (the only way to fill a Circuit made with the core constructors is to add to
        # its tables): run when only the first statements are there -- whatever that gives --, add the rest, run again.
        # The second run is a run of the whole program.
        stmts = s.c.body.statements
        m = min(int(case["grow"]), len(stmts))
        held = stmts[len(stmts) - m:]
        del stmts[len(stmts) - m:]
        X.run(s, ov or None, seed=1)
        stmts.extend(held)
        info["grown"] = 1
    o = X.run(s, ov or None, seed=1)
    fails = []
    if o[0] == "budget":
        return "inconclusive-case:step-budget", [], info
    if o[0] == "exc":
        fails.append(("wrong-exception:" + o[1], {"error": o[2], "reference": info["ref"]}))
        return "ok", fails, info
    if o[0] == "jaqal":
        info["msg"] = o[2]
        if not o[2].strip():
            fails.append(("empty-error-message", {}))
        if rule is None:
            fails.append(("rejects-acceptable-program", {"error": o[2]}))
        return "ok", fails, info
    # accepted by the emulator
    if rule is not None:
        fails.append(("accepts-program-violating:" + rule, {"subcircuits": len(o[1].subcircuits)}))
        return "ok", fails, info
    subs = scan["subs"]
    rs, ros = X.result_view(o[1])
    if len(rs) != len(subs):
        fails.append(("subcircuit-count", {"expected": len(subs), "got": len(rs)}))
        return "ok", fails, info
    # one subcircuit PER pair: as many different objects as pairs, numbered in flat order, and every readout filed under
    # the pair that produced it
    objs = list(o[1].subcircuits)
    info["identity"] = 1
    if len({id(x) for x in objs}) != len(objs):
        fails.append(("one-subcircuit-object-stands-for-several-pairs", {"indices": [sc["index"] for sc in rs]}))
        return "ok", fails, info
    if [sc["index"] for sc in rs] != list(range(len(rs))):
        fails.append(("subcircuits-not-numbered-in-flat-order", {"indices": [sc["index"] for sc in rs]}))
        return "ok", fails, info
    for sc, ob in zip(rs, objs):
        if any(r.subcircuit is not ob for r in ob.readouts):
            fails.append(("readout-filed-under-another-subcircuit", {"index": sc["index"]}))
            return "ok", fails, info
    cmp = 0
    straddle = set(P.straddling(subs))
    for i, sc in enumerate(rs):
        if i in straddle:
            continue  # the gate sequence of a subcircuit that straddles a loop boundary is not defined by the statement
        ref = P.sub_state(subs, i)
        if ref is None or sc["state"] is None:
            continue
        cmp += 1
        if sc["state"].shape != ref.shape or float(np.abs(sc["state"] - ref).max()) > 1e-9:
            fails.append(("subcircuit-gates-differ", {"index": i, "expected": ref, "got": sc["state"]}))
            break
    info["compared"] = cmp
    return "ok", fails, info


def _clauses(case):
    return {f[0] for f in judge(case)[1]}


def macroify_subcircuits(prog):
    hit = [False]

    def rw(s, in_sub):
        if not isinstance(s, tuple):
            return s
        if s[0] == "gate" and s[1] == "X" and in_sub:
            hit[0] = True
            return ("gate", "mx1") + s[2:]
        return tuple(rw(x, in_sub or s[0] == "subcircuit_block") for x in s)

    out = rw(prog, False)
    if not hit[0]:
        return None
    # a subcircuit block at top level also sits in a `loop 1 { }`: the builder may then build it before the circuit exists
    out = tuple(("loop", 1, ("sequential_block", x)) if (isinstance(x, tuple) and x[0] == "subcircuit_block") else x for x in out)
    k = max([i for i, x in enumerate(out) if isinstance(x, tuple) and x[0] in sx.HEADER] + [0])
    return out[:k + 1] + (("macro", "mx1", "a", ("sequential_block", ("gate", "X", "a"))),) + out[k + 1:]


def two_level(prog, kind):
    """Two macros that every variant names alike, `out0` calling `in0`: with kind "G" in0 is one gate and the ordinary gates
    inside subcircuit blocks become calls of out0; with kind "S" in0 IS the first subcircuit block (gates only) and out0
    stands where that block stood.  Same bracket structure as `prog`; what the two names hold differs from program to
    program of one process."""
    hdr_end = max([i for i, x in enumerate(prog) if isinstance(x, tuple) and x[0] in sx.HEADER] + [0])
    if kind == "G":
        hit = [False]

        def rw(s, in_sub):
            if not isinstance(s, tuple):
                return s
            if s[0] == "gate" and s[1] == "X" and in_sub:
                hit[0] = True
                return ("gate", "out0") + s[2:]
            return tuple(rw(x, in_sub or s[0] == "subcircuit_block") for x in s)

        out = rw(prog, False)
        if not hit[0]:
            return None
        macros = (("macro", "in0", "a", ("sequential_block", ("gate", "X", "a"))),
                  ("macro", "out0", "a", ("sequential_block", ("gate", "in0", "a"))))
        return out[:hdr_end + 1] + macros + out[hdr_end + 1:]
    found = []

    def rw2(s):
        if not isinstance(s, tuple):
            return s
        if s[0] == "subcircuit_block" and not found and all(isinstance(x, tuple) and x[0] == "gate" for x in s[2:]):
            found.append(s)
            return ("gate", "out0")
        return tuple(rw2(x) for x in s)

    out = rw2(prog)
    if not found:
        return None
    if kind == "N":
        # the call of out0 -- which holds a subcircuit -- itself inside a subcircuit block: an illegal nesting, to be refused
        def wrap(s):
            if s == ("gate", "out0"):
                return ("subcircuit_block", "", s)
            return tuple(wrap(x) for x in s) if isinstance(s, tuple) else s

        out = wrap(out)
    macros = (("macro", "in0", ("sequential_block", found[0])), ("macro", "out0", ("sequential_block", ("gate", "in0"))))
    return out[:hdr_end + 1] + macros + out[hdr_end + 1:]


def macro_is_subcircuit(prog):
    """The first subcircuit block that holds only gates becomes the BODY of a macro (not a block inside its body): only the
    builder API can say that.  A call of the macro stands where the block stood."""
    hdr_end = max([i for i, x in enumerate(prog) if isinstance(x, tuple) and x[0] in sx.HEADER] + [0])
    found = []

    def rw(s):
        if not isinstance(s, tuple):
            return s
        if s[0] == "subcircuit_block" and not found and all(isinstance(x, tuple) and x[0] == "gate" for x in s[2:]):
            found.append(s)
            return ("gate", "msub0")
        return tuple(rw(x) for x in s)

    out = rw(prog)
    if not found:
        return None
    return out[:hdr_end + 1] + (("macro", "msub0", found[0]),) + out[hdr_end + 1:]


def idle_variant(prog):
    """Every ordinary gate replaced by its idle counterpart."""
    hit = [False]

    def rw(s):
        if not isinstance(s, tuple):
            return s
        if s[0] == "gate" and s[1] == "X":
            hit[0] = True
            return ("gate", "I_X") + s[2:]
        return tuple(rw(x) for x in s)

    out = rw(prog)
    return out if hit[0] else None


def letify(rng, prog):
    """One literal loop count c replaced by a let that is DECLARED with another value and OVERRIDDEN to c: the program
    under its override dictionary is the original program."""
    loops = [s for s in sx.walk(prog) if s[0] == "loop" and isinstance(s[1], int)]
    if not loops:
        return None
    target = rng.choice(loops)
    c = target[1]
    declared = rng.choice([v for v in (0, 1, 2, 3) if v != c])
    done = [False]

    def rw(s):
        if not isinstance(s, tuple):
            return s
        if s is target and not done[0]:
            done[0] = True
            return ("loop", "cnt", rw(s[2]))
        return tuple(rw(x) for x in s)

    body = rw(prog)
    return ("circuit", ("let", "cnt", declared)) + body[1:], {"cnt": c}


def process(ctx, case, seen, minimise_budget=120):
    rec = ctx.rec
    prog = case_prog(case)
    st, fails, info = judge(case)
    has_container = any(s[0] in ("loop", "sequential_block", "parallel_block", "subcircuit_block", "macro") for s in sx.walk(prog) if s is not prog)
    has_pm = any(s[0] == "gate" and s[1] in ("prepare_all", "measure_all") for s in sx.walk(prog)) or \
        any(s[0] == "subcircuit_block" for s in sx.walk(prog))
    rec.case(prog, nontrivial=has_container and has_pm)
    if st != "ok":
        rec.count(":".join(st.split(":")[:3]))
        if st.startswith("inconclusive:"):
            rec.inconc(st)
        return
    rec.count("judged")
    rec.count("ref-" + info["ref"])
    if "msg" in info:
        rec.count("emulator-message:%s -> reference %s" % (info["msg"], info["ref"]))
    rec.count("states-compared", info.get("compared", 0))
    rec.count("results-checked-for-one-object-per-pair", info.get("identity", 0))
    if info.get("pre"):
        rec.count("programs-run-after-their-macros-were-expanded:" + info["pre"])
    f = prog_features(prog)
    for clause, detail in fails:
        key = (clause,)
        seen[key] = seen.get(key, 0) + 1
        if seen[key] > 3:
            rec.count("unminimised-repeat:" + clause)
            continue
        base = {"assemble": case["assemble"]} if case.get("assemble") else {}
        if case.get("assemble") == "builder":
            base["bseed"] = case.get("bseed", 0)
        if case.get("ov"):
            base.update(ov=case["ov"], order=case.get("order"))
        if case.get("pre"):
            base["pre"] = case["pre"]
        small = minimise.minimise(prog, lambda p: clause in _clauses(dict(base, prog=p)), budget=minimise_budget) if minimise_budget else prog
        small_case = dict(base, prog=small)
        d2 = [x for x in judge(small_case)[1] if x[0] == clause]
        feats = shape_features(small)
        if base.get("ov"):
            feats = set(feats) | {"loop-count-overridden", "macros-expanded-first" if base.get("order") == "ML" else "lets-filled-first"}
        if base.get("pre"):
            feats = set(feats) | {"macros-expanded-before-the-run"}
        if base.get("assemble") == "builder":
            feats = set(feats) | {"built-through-CircuitBuilder"}
        elif base.get("assemble"):
            feats = set(feats) | {"assembled-from-core-objects"}
            if any(x[0] == "subcircuit_block" and any(y is not x and y[0] == "subcircuit_block" for y in sx.walk(x)) for x in sx.walk(small)):
                feats.add("subcircuit-inside-subcircuit")
        rec.violation(sig("C12", clause, feats), d2[0][1] if d2 else detail, small_case)


def shape_features(prog):
    """Mechanism features for C12 witnesses: which containers surround prepare/measure."""
    f = set()

    def walk(s, ctx):
        k = s[0]
        if k == "gate":
            if s[1] in ("prepare_all", "measure_all"):
                for c in ctx:
                    f.add("%s-in-%s" % (s[1][0], c))
            return
        if k == "loop":
            walk(s[2], ctx + ["loop%s" % (s[1] if s[1] in (0, 1) else "N")])
        elif k == "sequential_block":
            for x in s[1:]:
                walk(x, ctx)
        elif k == "parallel_block":
            for x in s[1:]:
                walk(x, ctx + ["par"])
        elif k == "subcircuit_block":
            for c in ctx:
                f.add("sub-in-%s" % c)
            f.add("sub")
            for x in s[2:]:
                walk(x, ctx)
        elif k == "macro":
            walk(s[-1], ctx + ["macro"])

    for s in prog[1:]:
        if s[0] not in sx.HEADER:
            walk(s, [])
    return f


def misplace(rng, prog):
    """Hostile mutation of an executable program: delete / duplicate / move one prepare_all or
    measure_all, or unwrap one subcircuit block."""
    pos = []

    def collect(s, path):
        for i, x in enumerate(s):
            if isinstance(x, tuple):
                if x[0] == "gate" and x[1] in ("prepare_all", "measure_all"):
                    pos.append(path + (i,))
                elif x[0] in ("sequential_block", "parallel_block", "subcircuit_block", "loop", "circuit"):
                    collect(x, path + (i,))

    collect(prog, ())
    if not pos:
        return prog
    path = rng.choice(pos)

    def edit(s, path, fn):
        if len(path) == 1:
            return fn(s, path[0])
        return s[:path[0]] + (edit(s[path[0]], path[1:], fn),) + s[path[0] + 1:]

    r = rng.random()
    if r < 0.4:
        return edit(prog, path, lambda s, i: s[:i] + s[i + 1:])
    if r < 0.7:
        return edit(prog, path, lambda s, i: s[:i + 1] + (s[i],) + s[i + 1:])
    other = "measure_all" if rng.random() < 0.5 else "prepare_all"
    return edit(prog, path, lambda s, i: s[:i] + (("gate", other),) + s[i + 1:])


def shard(ctx):
    rec = ctx.rec
    monitors.install_contracts()
    seen = {}
    # (leaves<=N, containers<=B, stride): stride 1 = complete enumeration of that space
    spaces = [(4, 1, 1), (3, 2, 7)] if ctx.quick else [(5, 1, 1), (4, 2, 1)]
    j = 0
    done_all = True
    emitted = set()
    for (nl, nb, stride) in spaces:
        for prog in bracket.enumerate_programs(nl, nb):
            j += 1
            if not ctx.mine(j // stride) or j % stride:
                continue
            if prog in emitted:
                continue
            if rec.time_left() < (rec.deadline - rec.t0) * 0.15:
                done_all = False
                break
            emitted.add(prog)
            process(ctx, {"prog": prog}, seen)
            rec.count("bracket-programs")
            if j % 4 == 1:
                # the same bracket structure with idle gates (they use no qubit, but they are gates: the rule applies)
                ip = idle_variant(prog)
                if ip is not None:
                    process(ctx, {"prog": ip}, seen, minimise_budget=0)
                    rec.count("idle-gate-variants")
            if True:
                # ordinary gates inside subcircuit blocks turned into calls of a one-gate macro, and the program put
                # together with the CircuitBuilder (loops and macros built at once or unevaluated): same bracket structure
                mp = macroify_subcircuits(prog)
                if mp is not None:
                    process(ctx, {"prog": mp, "assemble": "builder", "bseed": ctx.rng.randrange(1 << 30)}, seen, minimise_budget=0)
                    rec.count("bracket-programs-through-CircuitBuilder")
            if j % 4 == 1:
                ms = macro_is_subcircuit(prog)
                if ms is not None:
                    process(ctx, {"prog": ms, "assemble": "builder", "bseed": ctx.rng.randrange(1 << 30)}, seen, minimise_budget=0)
                    rec.count("macro-whose-body-is-a-subcircuit-block")
                    process(ctx, {"prog": ms, "assemble": "builder", "bseed": ctx.rng.randrange(1 << 30), "pre": "M"}, seen, minimise_budget=0)
            if j % 6 == 4:
                # built from the S-expression, subcircuit blocks (empty ones too) directly as loop bodies
                process(ctx, {"prog": prog, "assemble": "build"}, seen, minimise_budget=0)
                rec.count("bracket-programs-built-from-S-expressions")
            if j % 5 == 2:
                process(ctx, {"prog": prog, "grow": ctx.rng.randint(1, 3)}, seen, minimise_budget=0)
                rec.count("circuits-grown-between-runs")
            if j % 4 == 3:
                # what the macro names in0 / out0 hold changes from one program to the next
                # (state that outlives a build is settled by whichever kind comes first in a process: the order differs by shard)
                for kind in (("G", "S", "N", "G") if ctx.index % 2 == 0 else ("N", "S", "G", "G")):
                    tp = two_level(prog, kind)
                    if tp is not None:
                        process(ctx, {"prog": tp}, seen, minimise_budget=0)
                        rec.count("two-level-macro-programs:" + kind)
                        if kind != "N":
                            process(ctx, {"prog": tp, "pre": ctx.rng.choice(["M", "PM"])}, seen, minimise_budget=0)
            if j % 3 == 0:
                lp = letify(ctx.rng, prog)
                if lp is not None:
                    process(ctx, {"prog": lp[0], "ov": lp[1], "order": ctx.rng.choice(["LM", "ML"])}, seen, minimise_budget=0)
                    rec.count("loop-count-overridden-programs")
    rec.exhaustive = done_all
    rec.note("exhaustive_spaces", {"(leaves<=N, containers<=B, stride)": spaces, "complete": done_all,
                                   "meaning": "spaces with stride 1 were enumerated completely when complete is true"})
    # nestings that only circuits assembled from core objects can have (subcircuit inside subcircuit, blocks of one
    # kind inside each other, prepare/measure inside a subcircuit block): the same acceptance rule applies
    k = 0
    ostride = 8 if ctx.quick else 1
    for prog in bracket.enumerate_object_programs(3, 2):
        k += 1
        if k % ostride or not ctx.mine(k // ostride):
            continue
        if rec.time_left() < (rec.deadline - rec.t0) * 0.1:
            break
        process(ctx, {"prog": prog, "assemble": True}, seen, minimise_budget=0)
        rec.count("object-assembled-programs")
    # sampled deeper bracket sequences and misplaced prepare/measure in random executable programs
    rng = ctx.rng
    i = 0
    n = ctx.scale(2000, 80000)
    while i < n and not rec.expired():
        i += 1
        if rng.random() < 0.5:
            g = gen.ExecGen(rng, reg_size=(1, 2), max_depth=3, body_len=(1, 3), n_maps=(0, 1), n_macros=(0, 2),
                            loop_counts=(0, 1, 2), allow_par=rng.random() < 0.5)
            prog = g.program()
            for _ in range(rng.choice([0, 1, 1, 2])):
                prog = misplace(rng, prog)
            rec.count("random-misplaced")
        else:
            nl = rng.randint(4, 7)
            nb = rng.randint(2, 4)
            prog = sample_forest(rng, nl, nb)
            if prog is None:
                continue
            rec.count("sampled-bracket")
        case = {"prog": prog}
        if rng.random() < 0.35:
            case.update(assemble="builder", bseed=rng.randrange(1 << 30))
            rec.count("built-through-CircuitBuilder")
        process(ctx, case, seen)
        if i <= 3:
            rec.sample({"text": sx.to_text(prog)})
    monitors.report_contracts(rec)


def sample_forest(rng, nl, nb):
    """Uniform-ish random forest with nl leaves and nb containers (rejection on illegal nesting)."""
    for _ in range(20):
        items = [rng.choice(bracket.LEAVES) for _ in range(nl)]
        for _b in range(nb):
            # choose a run inside one (possibly nested) item list
            lst = items
            while True:
                subs = [i for i, x in enumerate(lst) if isinstance(x, tuple)]
                if subs and rng.random() < 0.4:
                    k = rng.choice(subs)
                    inner = list(lst[k][1])
                    lst[k] = (lst[k][0], inner)
                    lst = inner
                else:
                    break
            a = rng.randint(0, len(lst))
            b = rng.randint(a, len(lst))
            lst[a:b] = [(rng.choice(bracket.CONTAINERS), list(lst[a:b]))]

        def freeze(l):
            return tuple((x[0], freeze(x[1])) if isinstance(x, tuple) else x for x in l)

        try:
            return bracket.render(freeze(items))
        except bracket.Illegal:
            continue
    return None


def replay(ctx, case):
    st, fails, info = judge(case)
    prog = case_prog(case)
    for clause, detail in fails:
        ctx.rec.violation(sig("C12", clause, shape_features(prog)), detail, case)
