"""Build a model program through the object-oriented CircuitBuilder API.

The documented default of CircuitBuilder.let/register/map/macro/loop/usepulses is to build the
core object at once ("eager", out of the circuit's context) and to add that object to the
circuit; with unevaluated=True the S-expression is kept and built with the whole circuit.  A
user may mix both freely, may pass names or the returned objects, and may hand a qubit as an
object (reg[i]) or as an ('array_item', reg, i) expression.  `via_builder(prog, seed)` makes
all of these choices from `seed`; seed None = everything unevaluated and by name (the plain
S-expression route spelled through the builder)."""
import random


def via_builder(prog, seed=None, native=None):
    from jaqalpaq.core import CircuitBuilder
    from jaqalpaq.core.circuitbuilder import SequentialBlockBuilder, ParallelBlockBuilder, SubcircuitBlockBuilder

    rng = random.Random(seed)

    def eager():
        return seed is not None and rng.random() < 0.6

    b = CircuitBuilder(native_gates=native)
    objs = {}  # name -> core object returned by an eager call (Constant, Register, NamedQubit)
    choices = []

    def ref(name):
        """A declared name: the object if we have one (and feel like it), else the name."""
        if name in objs and rng.random() < 0.7:
            return objs[name]
        return name

    def val(x):
        return ref(x) if isinstance(x, str) else x

    class Unresolvable(Exception):
        pass

    last_stmt = {}
    pobjs = {}  # inside a macro whose parameters are handed over as Parameter objects: name -> object
    # one circuit uses either numpy numbers or the no_duplicate flag: the builder compares expressions with ==, which a
    # numpy scalar next to a nested expression turns into an array
    use_numpy = seed is not None and rng.random() < 0.5
    use_nd = seed is not None and not use_numpy

    def num(x, narrow=True):
        """A number as a user's computation may deliver it: a numpy scalar of the same value (narrow=False: no 32-bit floats
        -- a let constant is documented to hold an int or a float, which numpy.float64 is and numpy.float32 is not)."""
        if not use_numpy:
            return x
        if seed is None or isinstance(x, bool) or not isinstance(x, (int, float)) or rng.random() > 0.35:
            return x
        import numpy as np

        if isinstance(x, int):
            if abs(x) >= 2 ** 62:
                return x
            choices.append("numpy-integer")
            return np.int64(x)
        if narrow and x == x and abs(x) < 1e30 and float(np.float32(x)) == x and rng.random() < 0.6:
            choices.append("numpy-float32")
            return np.float32(x)  # the same number in a narrower type
        choices.append("numpy-float")
        return np.float64(x)

    def peek():
        """Build the circuit as it stands (a builder makes "a full Circuit on demand") and go on adding to the
        child builders handed out earlier: the final build must see everything."""
        if seed is not None and not in_macro[0] and rng.random() < 0.15:
            choices.append("intermediate-build")
            try:
                b.build()
            except Exception:
                pass

    in_macro = [False]

    def obj_arg(a, params, must):
        """Argument of a gate statement.  `params` = names bound by the enclosing macro (kept as
        names); `must` = the enclosing statement is built eagerly, out of the circuit's context, so
        every other name has to be handed over as an object."""
        if isinstance(a, tuple) and a[0] == "array_item" and pobjs and (a[1] in pobjs or a[2] in pobjs):
            # parameters handled as objects ("it can be used within the body of a macro exactly as if it were a register")
            reg, idx = a[1], a[2]
            base = pobjs[reg] if reg in pobjs else (objs[reg] if reg in objs else None)
            i = pobjs[idx] if idx in pobjs else (objs[idx] if (isinstance(idx, str) and idx in objs) else idx)
            if base is not None and not isinstance(i, str):
                return base[i]
            if must and ((reg not in params and base is None) or (isinstance(i, str) and i not in params)):
                raise Unresolvable(reg)  # an object built at once cannot refer to a name that only the circuit knows
            return a
        if isinstance(a, str) and a in pobjs:
            return pobjs[a]
        if isinstance(a, tuple) and a[0] == "array_item":
            reg, idx = a[1], a[2]
            if reg in params:
                if isinstance(idx, str) and idx not in params:
                    if idx not in objs:
                        if must:
                            raise Unresolvable(idx)
                        return a
                    return ("array_item", reg, objs[idx]) if (must or rng.random() < 0.5) else a
                return a
            if reg in objs and hasattr(objs[reg], "__getitem__") and (must or rng.random() < 0.6):
                i = idx
                if isinstance(idx, str):
                    if idx in params:
                        i = None
                    elif idx in objs:
                        i = objs[idx]
                    else:
                        i = None
                if i is not None:
                    choices.append("qubit-object")
                    return objs[reg][i]
            if must and not (reg in params):
                raise Unresolvable(reg)
            return a
        if isinstance(a, str):
            if a in params:
                return a
            if a in objs and (must or rng.random() < 0.7):
                return objs[a]
            if must:
                raise Unresolvable(a)
            return a
        return num(a)

    def count_arg(c, params, must):
        if isinstance(c, str) and c in pobjs:
            return pobjs[c]
        if isinstance(c, str) and c not in params:
            if c in objs and (must or rng.random() < 0.7):
                return objs[c]
            if must:
                raise Unresolvable(c)
        return num(c)

    def emit(bb, s, params, must):
        k = s[0]
        if k != "gate":
            last_stmt[id(bb)] = s
        if k == "gate":
            # no_duplicate=True only drops a gate equal to the one right before it: harmless whenever that one differs
            # (decided on the model statements; numbers stay plain Python numbers in such a call, because the builder
            # compares the expressions with ==, which numpy scalars turn into an array)
            nd = use_nd and rng.random() < 0.3 and last_stmt.get(id(bb)) != s
            last_stmt[id(bb)] = s
            args = [obj_arg(a, params, must) for a in s[2:]]
            if nd:
                choices.append("no-duplicate-flag")
                bb.gate(s[1], *args, no_duplicate=True)
            else:
                bb.gate(s[1], *args)
        elif k in ("sequential_block", "parallel_block"):
            nb = bb.block(parallel=(k == "parallel_block"))
            peek()
            for x in s[1:]:
                emit(nb, x, params, must)
        elif k == "subcircuit_block":
            c = s[1]
            nb = bb.subcircuit() if c == "" else bb.subcircuit(count_arg(c, params, must))
            peek()
            for x in s[2:]:
                emit(nb, x, params, must)
        elif k == "loop":
            body = s[2]
            # a loop inside a macro body refers to the parameters: it cannot be built on its own
            loop_eager = (not params) and (must or eager())

            def make(need):
                inner = ParallelBlockBuilder() if body[0] == "parallel_block" else SequentialBlockBuilder()
                for x in body[1:]:
                    emit(inner, x, params, need)
                return inner, count_arg(s[1], params, need)

            try:
                inner, cnt = make(must or loop_eager)
            except Unresolvable:
                if must:
                    raise
                loop_eager = False
                inner, cnt = make(False)
            choices.append("loop-eager" if loop_eager else "loop-unevaluated")
            bb.loop(cnt, inner, unevaluated=not loop_eager)
        else:
            raise ValueError("statement kind %r" % (k,))

    for s in prog[1:]:
        k = s[0]
        if k == "usepulses":
            e = eager()
            b.usepulses(s[1], s[2] if len(s) > 2 else all, unevaluated=not e)
        elif k == "let":
            e = eager()
            r = b.let(s[1], num(s[2], narrow=False), unevaluated=not e)
            if e:
                objs[s[1]] = r
        elif k == "register":
            e = eager() and not (isinstance(s[2], str) and s[2] not in objs)
            r = b.register(s[1], (objs[s[2]] if isinstance(s[2], str) else num(s[2])) if e else num(s[2]), unevaluated=not e)
            if e:
                objs[s[1]] = r
        elif k == "map":
            src = s[2]
            # an eager map needs the source and every let-valued bound as objects
            e = src in objs and all(not isinstance(x, str) or x in objs for x in s[3:]) and eager()

            def bound(x):
                return objs[x] if (e and isinstance(x, str)) else x

            source = objs[src] if e else src
            if len(s) == 3:
                idxs = None
            elif len(s) == 4:
                idxs = bound(s[3])
            else:
                idxs = slice(*[bound(x) for x in s[3:6]])
            if e:
                choices.append("map-eager")
            r = b.map(s[1], source, idxs, unevaluated=not e)
            if e:
                objs[s[1]] = r
        elif k == "macro":
            name, params, body = s[1], list(s[2:-1]), s[-1]
            e = eager()
            as_objects = seed is not None and rng.random() < 0.3
            for attempt in (e, False):
                inner = ParallelBlockBuilder() if body[0] == "parallel_block" else SequentialBlockBuilder()
                stmts = body[1:]
                if body[0] == "subcircuit_block":
                    # "body: what statements the macro expands to" may be any block builder: here the subcircuit block itself
                    inner = SubcircuitBlockBuilder() if body[1] == "" else SubcircuitBlockBuilder(body[1])
                    stmts = body[2:]
                    choices.append("macro-body-is-a-subcircuit-block")
                in_macro[0] = True
                pobjs.clear()
                if as_objects:
                    from jaqalpaq.core import Parameter

                    pobjs.update({n: Parameter(n, None) for n in params})
                try:
                    for x in stmts:
                        emit(inner, x, set(params), attempt)
                except Unresolvable:
                    in_macro[0] = False
                    pobjs.clear()
                    if not attempt:
                        raise
                    continue
                in_macro[0] = False
                choices.append("macro-eager" if attempt else "macro-unevaluated")
                if as_objects:
                    choices.append("parameter-objects")
                plist = [pobjs[n] for n in params] if as_objects else params
                pobjs.clear()
                b.macro(name, plist, inner, unevaluated=not attempt)
                break
        else:
            emit(b, s, set(), False)
    return b.build(), choices
