"""C05 -- let substitution (with overrides) preserves meaning in the chosen environment."""
from .. import sx, gen, lib, meaning as M, monitors, minimise
from . import execcommon as X
from .common import header_diff, native_names, prog_features, sig, case_prog

RULE = ("random programs using constants as gate argument, qubit index, register size, alias start/stop/step/index, loop "
        "count, subcircuit count, inside macros with and without shadowing parameters; override dictionaries over subsets "
        "of the declared constants (int and float values that keep every reference in range, incl. values changing register "
        "sizes, indices and loop counts); also via parse_jaqal_string(expand_let=True, override_dict=...); also after earlier fill_in_let calls with other "
        "environments on the same circuit object and with one override dictionary object shared by many calls; oracle = reference "
        "let evaluation on the input IR; non-trivial = at least one constant is referenced; distinct = S-expression + overrides")
ASSUMPTIONS = ["reference let evaluation in vf/meaning.py", "override values are numbers; overrides that the reference "
               "semantics finds out of range are not judged here (C14)"]
TIERS = {"quick": {"shards": 8, "budget_s": 220}, "thorough": {"shards": 16, "budget_s": 300}}
REQUIRE = {"via-parser-expand-macro-and-let": 500, "circuits-with-a-branch-statement": 100, "gate-set-in-force": 3000, "via-parser-expand-let-map": 500, "calls-after-earlier-calls-on-same-object": 500, "override-used": 200, "let-sized-register": 100, "let-bound-map": 100, "shadowed-let-in-macro": 20,
           "via-parser": 100, "let-count": 100}


SWEEP = {}


IMPORT_DIR = "/some/where/else"


def find_lets(t, path=()):
    """Positions of ('let', name) nodes inside a raw core tree."""
    out = []
    if isinstance(t, tuple):
        if len(t) == 2 and t[0] == "let" and isinstance(t[1], str):
            return [path]
        for i, x in enumerate(t):
            out.extend(find_lets(x, path + (i,)))
    return out


def constants_reachable(obj, limit=20000):
    """Names of the Constant objects reachable from obj through attributes and containers (whatever the statement classes
    are: no knowledge of the IR is needed)."""
    from jaqalpaq.core import Constant

    seen, out, stack = set(), [], [obj]
    while stack and len(seen) < limit:
        o = stack.pop()
        if isinstance(o, (int, float, str, bytes, bool, type(None), type)) or id(o) in seen:
            continue
        seen.add(id(o))
        if isinstance(o, Constant):
            out.append(o.name)
            continue
        if isinstance(o, dict):
            stack.extend(o.values())
        elif isinstance(o, (list, tuple, set, frozenset)):
            stack.extend(o)
        elif isinstance(o, slice):
            stack.extend([o.start, o.stop, o.step])
        elif callable(o) and not hasattr(o, "__dict__"):
            continue
        elif hasattr(o, "__dict__") and type(o).__module__.startswith("jaqalpaq"):
            stack.extend(vars(o).values())
    return sorted(set(out))


def judge_branch(case):
    """The experimental branch statement (switched on for this circuit only): after let substitution no constant is
    reachable from the body or the macros, the case bodies included.  No semantics needed."""
    import jaqalpaq.core.branch as bm
    from . import c11

    prog = case_prog(case)
    ov = dict(case.get("ov") or {})
    old = bm.USE_EXPERIMENTAL_BRANCH
    bm.USE_EXPERIMENTAL_BRANCH = True
    try:
        text = sx.to_text(prog) + c11.branch_text([(st_, [sx.unnorm(x) if isinstance(x, list) else x for x in body]) for st_, body in case["branch"]])
        o = lib.outcome(lib.parse, text)
        if o[0] != "ok":
            return "skipped:input-rejected:" + o[1], []
        try:
            M.validate(M.core_from_sx(prog), ov)
        except (M.MeaningError, M.OracleError):
            return "skipped:no-reference-meaning:branch", []
        r = lib.outcome(lib.fill_in_let, o[1], ov or None)
        if r[0] == "jaqal":
            return "skipped:branch-program-rejected", []
        if r[0] != "ok":
            return "ok", [("crash:" + r[1] + ":branch-statement", {"error": r[2], "ov": ov})]
        left = constants_reachable([r[1].body, list(r[1].macros.values()), list(r[1].registers.values())])
        if left:
            return "ok", [("constant-left:branch-statement", {"constants": left, "ov": ov, "text": text})]
        return "ok", []
    finally:
        bm.USE_EXPERIMENTAL_BRANCH = old


def judge(case):
    if case.get("branch"):
        return judge_branch(case)
    prog = case_prog(case)
    ov = dict(case.get("ov") or {})
    via_parser = bool(case.get("via_parser"))
    if not sx.legal_nesting(prog):
        return "skipped:illegal-nesting", []
    text = sx.to_text(prog)
    # with a gate set in force every build (the parse, each rebuild by a pass) works with the same definition objects
    native = X.native() if case.get("native") else None
    # relative pulse imports remember the directory they are relative to (not loaded here: autoload_pulses=False)
    o = lib.outcome(lib.parse, text, native, import_path=IMPORT_DIR)
    if o[0] != "ok":
        return "skipped:input-rejected:" + o[1], []
    c = o[1]
    try:
        kc = M.core_from_ir(c)
        M.validate(kc, ov)
        expected = M.meaning(kc, expand_macros=False, env=ov, expand_a1=True)
        exp_macros = M.macro_meanings(kc, env=ov, expand_a1=True)
        exp_full = M.meaning(kc, expand_macros=True, env=ov, resolve=True)  # also validates ranges under ov
        exp_regs = {n: ([] if r[0] != "R" else M.Evaluator(kc, env=ov, resolve=True).elems(r, {})) for n, r in kc.regs.items()}
    except M.MeaningError as ex:
        return "skipped:no-reference-meaning:" + ex.kind, []
    except M.OracleError as ex:
        return "inconclusive:oracle:%s" % ex, []
    fails = []
    if via_parser and case.get("via_parser") == "map":
        # the parser asked to substitute lets AND aliases (expand_let_map=True) under the overrides: every reference of the
        # result is on the fundamental register and denotes the qubit the overridden program denotes
        if case.get("file"):
            # the same options through parse_jaqal_file
            from . import c10

            o = lib.outcome(c10.parse_as_file, text, dict(native=native, expand_let_map=True, override_dict=dict(ov) or None, import_path=IMPORT_DIR))
        else:
            o = lib.outcome(lib.parse, text, native, expand_let_map=True, override_dict=dict(ov) or None, import_path=IMPORT_DIR)
        if o[0] == "jaqal":
            o1 = lib.outcome(lib.parse, text, native, expand_let=True, override_dict=dict(ov) or None, import_path=IMPORT_DIR)
            if o1[0] == "ok":
                return "skipped:fill_in_map-precondition", []
            return "ok", [("rejected-valid-program:expand_let_map", {"error": o[2], "ov": ov})]
        if o[0] == "exc":
            return "ok", [("crash:expand_let_map:" + o[1], {"error": o[2], "ov": ov})]
        try:
            kr = M.core_from_ir(o[1])
            got_full = M.meaning(kr, expand_macros=True, env={}, resolve=True)
            if not M.tree_equal(exp_full, got_full):
                fails.append(("resolved-meaning-differs:expand_let_map", {"diff": M.first_diff(exp_full, got_full), "ov": ov}))
        except M.MeaningError as ex:
            fails.append(("result-unresolvable:expand_let_map:" + ex.kind, {"error": str(ex), "ov": ov}))
        except M.OracleError as ex:
            fails.append(("malformed-result:expand_let_map", {"error": str(ex)[:200], "ov": ov}))
        return "ok", fails
    if via_parser and case.get("via_parser") == "macro":
        # the parser asked to expand macros AND substitute lets under the overrides (macros first): what runs is what the
        # overridden program means
        o = lib.outcome(lib.parse, text, native, expand_macro=True, expand_let=True, override_dict=dict(ov) or None, import_path=IMPORT_DIR)
        if o[0] == "jaqal":
            return "ok", [("rejected-valid-program:expand_macro+expand_let", {"error": o[2], "ov": ov})]
        if o[0] == "exc":
            return "ok", [("crash:expand_macro+expand_let:" + o[1], {"error": o[2], "ov": ov})]
        try:
            kr = M.core_from_ir(o[1])
            got_full = M.meaning(kr, expand_macros=True, env={}, resolve=True)
            if not M.tree_equal(exp_full, got_full):
                fails.append(("resolved-meaning-differs:expand_macro+expand_let", {"diff": M.first_diff(exp_full, got_full), "ov": ov}))
            if find_lets((kr.body, tuple(kr.macros.items()), tuple(kr.regs.items()))):
                fails.append(("constant-left:expand_macro+expand_let", {"ov": ov}))
        except M.MeaningError as ex:
            fails.append(("result-unresolvable:expand_macro+expand_let:" + ex.kind, {"error": str(ex), "ov": ov}))
        except M.OracleError as ex:
            fails.append(("malformed-result:expand_macro+expand_let", {"error": str(ex)[:200], "ov": ov}))
        return "ok", fails
    # earlier calls on the SAME circuit object with other environments (a parameter sweep over one parsed circuit):
    # whatever they leave behind must not influence the judged call
    for prior in case.get("prior") or ():
        lib.outcome(lib.fill_in_let, c, dict(prior) or None)
    passed = case.get("_shared_dict")
    if passed is None:
        passed = dict(ov)
    before = dict(passed)
    if via_parser:
        o = lib.outcome(lib.parse, text, native, expand_let=True, override_dict=passed or None, import_path=IMPORT_DIR)
    else:
        o = lib.outcome(lib.fill_in_let, c, passed or None)
    if passed != before or list(passed) != list(before):
        fails.append(("override-dictionary-modified", {"before": before, "after": dict(passed)}))
        passed.clear()
        passed.update(before)
    if o[0] == "jaqal":
        return "ok", [("rejected-valid-program", {"error": o[2], "ov": ov})]
    if o[0] == "exc":
        return "ok", [("crash:" + o[1], {"error": o[2], "ov": ov})]
    r = o[1]
    try:
        try:
            kr = M.core_from_ir(r)
        except M.OracleError as ex:
            return "ok", [("malformed-result", {"error": str(ex)[:200], "ov": ov})]
        left = find_lets((kr.body, tuple(kr.macros.items()), tuple(kr.regs.items())))
        if left:
            where = sorted({"body" if p[0] == 0 else "macros" if p[0] == 1 else "registers" for p in left})
            fails.append(("constant-left", {"where": where, "positions": left[:5], "ov": ov}))
        got = M.meaning(kr, expand_macros=False, eval_lets=False, expand_a1=True)
        if not M.tree_equal(expected, got):
            kind = "meaning-differs"
            if repr(expected).count("'sub'") != repr(got).count("'sub'"):
                kind += ":subcircuit-annotation"
            fails.append((kind, {"diff": M.first_diff(expected, got), "ov": ov}))
        got_macros = M.macro_meanings(kr, eval_lets=False, expand_a1=True)
        if not M.tree_equal(tuple(exp_macros.items()), tuple(got_macros.items())):
            fails.append(("macros-differ", {"diff": M.first_diff(tuple(exp_macros.items()), tuple(got_macros.items())), "ov": ov}))
        # resolved: every qubit reference (through the *objects* the result holds) denotes the same physical qubit
        try:
            got_full = M.meaning(kr, expand_macros=True, env={}, resolve=True)
            if not M.tree_equal(exp_full, got_full):
                fails.append(("resolved-meaning-differs", {"diff": M.first_diff(exp_full, got_full), "ov": ov}))
        except M.MeaningError as ex:
            fails.append(("result-unresolvable:" + ex.kind, {"error": str(ex), "ov": ov}))
        # registers and aliases: same names, same denoted qubits under the chosen environment
        try:
            got_regs = {n: ([] if rr[0] != "R" else M.Evaluator(kr, env={}, resolve=True).elems(rr, {})) for n, rr in kr.regs.items()}
            if list(got_regs) != list(exp_regs) or got_regs != exp_regs:
                fails.append(("registers-differ", {"expected": exp_regs, "got": got_regs, "ov": ov}))
        except M.MeaningError as ex:
            fails.append(("result-registers-unresolvable:" + ex.kind, {"error": str(ex), "ov": ov}))
        if tuple(kr.usepulses) != tuple(kc.usepulses):
            fails.append(("header-changed:usepulses", {"before": kc.usepulses, "after": kr.usepulses}))
        else:
            ub = [(str(u.module), str(getattr(u, "_import_path", None))) for u in c.usepulses]
            ua = [(str(u.module), str(getattr(u, "_import_path", None))) for u in r.usepulses]
            if ub != ua:
                fails.append(("header-changed:usepulses:import-path", {"before": ub, "after": ua}))
        if native_names(c) != native_names(r):
            fails.append(("native-gates-changed", {"before": native_names(c), "after": native_names(r)}))
        if list(kr.macros) != list(kc.macros):
            fails.append(("macro-set-changed", {"before": list(kc.macros), "after": list(kr.macros)}))
    except M.OracleError as ex:
        return "inconclusive:oracle:%s" % ex, fails
    return "ok", fails


def _clauses(case):
    return {f[0] for f in judge(case)[1]}


def make_override(rng, prog):
    lets = [(s[1], s[2]) for s in prog[1:] if s[0] == "let"]
    ov = {}
    for name, v in lets:
        if rng.random() < 0.5:
            continue
        if isinstance(v, int) and 0 <= v <= 6:
            r = rng.random()
            if r < 0.75:
                ov[name] = rng.randint(0, 5)
            elif r < 0.85:
                ov[name] = float(rng.randint(0, 4))
            else:
                ov[name] = v
        elif isinstance(v, int):
            ov[name] = rng.choice([0, 1, -1, 7, 2**40, -3])
        else:
            ov[name] = rng.choice([0.0, 0.25, -1.5, 3.141592653589793, 1e-06, 2.0, 1e22, rng.uniform(-7, 7), 3])
    return ov


def used_lets(prog):
    names = {s[1] for s in prog[1:] if s[0] == "let"}
    used = set()

    def scan(x):
        if isinstance(x, tuple):
            for y in x[1:] if x and x[0] == "let" else x:
                scan(y)
        elif isinstance(x, str) and x in names:
            used.add(x)

    scan(prog)
    return used


def process(ctx, case, seen):
    rec = ctx.rec
    prog = case_prog(case)
    ul = used_lets(prog)
    st, fails = judge(case)
    rec.case([prog, sorted((case.get("ov") or {}).items()), case.get("via_parser")], nontrivial=bool(ul))
    shared = case.pop("_shared_dict", None)
    if st != "ok":
        rec.count(":".join(st.split(":")[:3]))
        if st.startswith("inconclusive"):
            rec.inconc(st)
        return
    rec.count("judged")
    f = prog_features(prog)
    for k in ("let-sized-register", "let-bound-map"):
        if k in f:
            rec.count(k)
    if "let-or-param-count" in f or "sub-let-count" in f:
        rec.count("let-count")
    if case.get("via_parser"):
        rec.count("via-parser")
    if set(case.get("ov") or {}) & ul:
        rec.count("override-used")
    letnames = {s[1] for s in prog[1:] if s[0] == "let"}
    for s in prog[1:]:
        if s[0] == "macro" and set(s[2:-1]) & letnames:
            rec.count("shadowed-let-in-macro")
            break
    for clause, detail in fails:
        key = (clause, tuple(sorted(f)))
        seen[key] = seen.get(key, 0) + 1
        if seen[key] > 2:
            rec.count("unminimised-repeat:" + clause)
            continue
        if clause == "override-dictionary-modified":
            rec.violation(sig("C05", clause), detail, {k: v for k, v in case.items() if k != "_shared_dict"})
            continue
        base = {"ov": case.get("ov"), "via_parser": case.get("via_parser"), "native": case.get("native"), "file": case.get("file")}
        if case.get("prior"):
            base["prior"] = case["prior"]
            if clause in _clauses(dict(base, prog=prog, prior=[])):
                base.pop("prior")  # fails without the earlier calls as well: report the simpler case
        small = minimise.minimise(prog, lambda p: clause in _clauses(dict(base, prog=p)), budget=250)
        small_case = dict(base, prog=small)
        # drop overrides that are not needed
        for k in list((small_case.get("ov") or {})):
            trial = dict(small_case, ov={a: b for a, b in small_case["ov"].items() if a != k})
            if clause in _clauses(trial):
                small_case = trial
        d2 = [x for x in judge(small_case)[1] if x[0] == clause]
        feats = prog_features(small)
        if small_case.get("ov"):
            feats.add("override")
        if small_case.get("prior"):
            feats.add("after-earlier-calls-on-same-object")
        if small_case.get("native"):
            feats.add("gate-set-in-force")
        rec.violation(sig("C05", clause, feats), d2[0][1] if d2 else detail, small_case)


def shard(ctx):
    rec = ctx.rec
    monitors.install_contracts()
    n = ctx.scale(20000, 200000)
    seen = {}
    i = 0
    while i < n and not rec.expired():
        i += 1
        rng = ctx.rng
        g = gen.ProgGen(rng, n_lets=(1, 5), n_macros=(0, 3), max_depth=rng.choice([2, 3, 4]), p_shadow=rng.choice([0.3, 0.8]),
                        p_hostile_names=0.05, macro_sub=rng.random() < 0.3, p_usepulses=0.3, p_let_reg=0.5,
                        p_let_count=0.6, p_let_index=0.5, p_let_arg=0.5, wild_numbers=rng.random() < 0.3, p_sub_count=0.7,
                        allow_reg_args=rng.random() < 0.5, p_qualified_twin=0.25)
        prog = g.program()
        use_native = i % 4 == 0
        if use_native:
            # programs over the harness gate set, parsed with that gate set in force
            g = gen.ExecGen(rng, n_lets=(1, 5), n_maps=(1, 4), n_macros=(0, 3), max_depth=rng.choice([2, 3]), p_shadow=rng.choice([0.3, 0.8]),
                            p_let_reg=0.5, p_let_count=0.6, p_let_index=0.5, p_let_arg=0.5, p_sub_count=0.7, macro_sub=rng.random() < 0.3)
            prog = g.program()
        earlier = []
        for attempt in range(3):
            ov = make_override(rng, prog) if rng.random() < 0.8 else {}
            case = {"prog": prog, "ov": ov, "via_parser": rng.random() < 0.3}
            if use_native:
                case["native"] = True
                rec.count("gate-set-in-force")
            if case["via_parser"] and rng.random() < 0.4:
                case["via_parser"] = "map"
                rec.count("via-parser-expand-let-map")
                if rng.random() < 0.4:
                    case["file"] = True
            elif case["via_parser"] and rng.random() < 0.35:
                case["via_parser"] = "macro"
                rec.count("via-parser-expand-macro-and-let")
            if earlier and not case["via_parser"] and rng.random() < 0.6:
                case["prior"] = list(earlier)
                rec.count("calls-after-earlier-calls-on-same-object")
            earlier.append(dict(ov))
            if ov and rng.random() < 0.5:
                # the caller keeps using one dictionary object for many circuits (a sweep)
                SWEEP.clear()
                SWEEP.update(ov)
                case["_shared_dict"] = SWEEP
                rec.count("shared-override-dict-calls")
            process(ctx, case, seen)
            case.pop("_shared_dict", None)
            if attempt == 0 and i % 10 == 0:
                # the experimental branch statement after the body, its cases holding copies of body statements that use lets
                letnames_ = {x[1] for x in prog[1:] if x[0] == "let"}
                simple = [x for x in prog[1:] if x[0] in ("gate", "loop") and x[1] not in ("prepare_all", "measure_all")
                          and any(isinstance(a, str) and a in letnames_ for y in sx.walk(x) for a in y[1:])]
                if simple:
                    bc = {"prog": prog, "ov": ov, "branch": [(format(k_, "01b"), [rng.choice(simple)]) for k_ in range(2)]}
                    stb, fb = judge(bc)
                    rec.count("circuits-with-a-branch-statement" if stb == "ok" else "branch:" + stb.split(":")[0] + ":" + stb.split(":")[1])
                    for clause, detail in fb:
                        rec.violation(sig("C05", clause), detail, bc)
            if i <= 2 and attempt == 0:
                rec.sample({"ov": ov, "via_parser": case["via_parser"], "text": sx.to_text(prog)})
    monitors.report_contracts(rec)


def replay(ctx, case):
    st, fails = judge(case)
    prog = case_prog(case)
    for clause, detail in fails:
        feats = prog_features(prog)
        if case.get("ov"):
            feats.add("override")
        if case.get("prior"):
            feats.add("after-earlier-calls-on-same-object")
        ctx.rec.violation(sig("C05", clause, feats), detail, case)
