"""C13 -- used-qubit analysis is exact; overlapping parallel branches are rejected."""
import re

import numpy as np

from .. import sx, gen, lib, meaning as M, monitors, minimise, gateset, gateset_sig, refexec, apiroute
from .common import prog_features, sig, case_prog
from . import execcommon as X

RULE = ("executable programs over the native gate set with aliases-of-aliases and strided slices, macro parameters as qubits, "
        "parallel blocks with 1-4 branches (gates or sequential sub-blocks) with controlled overlap probability, idle gates "
        "beside active gates on the same qubit, let-valued indices and let-sized registers. (a) get_used_qubit_indices on the "
        "circuit and on every top-level statement and macro-free sub-statement vs the reference used set; (b) emulator "
        "acceptance vs the reference overlap scan; (c) branch permutations: same acceptance and same states. "
        "non-trivial = program has a parallel block with >= 2 branches; distinct = S-expression")
ASSUMPTIONS = ["statement-level queries on busy gates are made through the circuit only",
               "reference used set = syntactic reachability through macros, loops of any count, nested blocks, aliases, lets; busy = all qubits, idle = none"]
TIERS = {"quick": {"shards": 8, "budget_s": 240}, "thorough": {"shards": 16, "budget_s": 360}}
REQUIRE = {"bounding-gate-in-a-parallel-block:emulator": 300, "bounding-gate-in-a-parallel-block:output-list": 300, "circuits-built-through-CircuitBuilder": 600, "whole-register-arguments-analysed": 3000, "busy-gate-beside-active": 100, "busy-gate-beside-active:stretched": 100, "macro-parameters-given-a-kind": 500, "macro-bodies-analysed-in-a-second-call-site-scope": 100, "macro-bodies-analysed-in-call-site-scope": 300, "gate-set:Ad": 500, "overlap:ref-yes": 100, "overlap:ref-no": 300, "used-circuit-compared": 500, "used-statement-compared": 500,
           "permutations-compared": 100, "merge-decisions-observed": 500, "idle-beside-active": 10}

MERGE_LOG = []
_WRAPPED = [False]


def wrap_merge():
    """Event log of every merge_into decision taken by the real analysis."""
    if _WRAPPED[0]:
        return
    from jaqalpaq.core.algorithm.used_qubit_visitor import UsedQubitIndicesVisitor
    from jaqalpaq.error import JaqalError

    orig = UsedQubitIndicesVisitor.merge_into

    def merge_into(self, tgt_dict, src_dict, disjoint=False):
        try:
            r = orig(self, tgt_dict, src_dict, disjoint=disjoint)
            MERGE_LOG.append((bool(disjoint), False))
            return r
        except JaqalError:
            MERGE_LOG.append((bool(disjoint), True))
            raise

    UsedQubitIndicesVisitor.merge_into = merge_into
    _WRAPPED[0] = True


def as_sets(d):
    return {k: set(v) for k, v in dict(d).items() if v}


def ref_used_of_tree(P, nd, regname):
    u = P.used(nd)
    return {regname: set(u)} if u else {}


def judge(case):
    prog = case_prog(case)
    variant = case.get("variant", "A")
    st, s = X.setup(prog, variant=variant, assemble=("builder", case["bseed"]) if case.get("bseed") is not None else False)
    if case.get("bseed") is None and st.startswith("skipped:input-rejected:JaqalError") and X.refused_when_built(prog, None, variant):
        # an otherwise valid program without overlapping branches, refused when it was built
        return "ok", [("rejects-disjoint-program:when-built", {"error": str(s.parse_outcome[2])[:200]})], {}
    if st != "ok":
        return st, [], None
    P = s.P
    if P.repeated_qubit_gate() is not None:
        return "skipped:gate-on-repeated-qubit", [], None
    ntyped = 0
    if case.get("typed"):
        # macros re-made from core constructors with typed parameters (apiroute.type_macro_parameters)
        ot = lib.outcome(apiroute.type_macro_parameters, s.c)
        if ot[0] != "ok":
            return "inconclusive:cannot-type-macros:%s" % (ot[2],), [], None
        s.c, ntyped = ot[1]
    regname = s.core.fundamental()[0][1]
    fails = []
    info = {"merge": 0, "typed": ntyped}
    del MERGE_LOG[:]
    # (a) circuit-level used set
    o = lib.outcome(lib.used_qubits, s.c)
    exp = ref_used_of_tree(P, P.root, regname)
    if o[0] == "exc":
        fails.append(("used-qubits-raised:" + o[1], {"error": o[2]}))
    elif o[0] == "jaqal":
        fails.append(("used-qubits-rejected", {"error": o[2]}))
    else:
        info["used_circuit"] = 1
        got = as_sets(o[1])
        if got != exp:
            fails.append(("used-set-differs:circuit", {"expected": exp, "got": got}))
    # statement level: every top-level body statement that holds no busy gate
    stmts = s.c.body.statements
    trees = s.tree[1] if s.tree[0] == "seq" else (s.tree,)
    # the normal form flattens; recompute per-statement reference from each statement's own meaning
    info["used_stmt"] = 0
    for stmt in stmts:
        try:
            k1 = M.Core()
            k1.lets, k1.regs, k1.macros = s.core.lets, s.core.regs, s.core.macros
            from ..meaning import core_from_ir  # noqa: F401
            sub_core = _stmt_core(s, stmt)
        except M.OracleError as ex:
            return "inconclusive:oracle:%s" % ex, fails, info
        if sub_core is None:
            continue
        try:
            t = M.full_meaning(sub_core, env={})
        except M.MeaningError:
            continue
        Ps = refexec.Program(t if t[0] in ("seq", "par", "loop", "gate") else ("seq", (t,)), s.n)
        if any(leaf.name in ("prepare_all", "measure_all") or leaf.name.split(gateset_sig.STRETCH_SUFFIX)[0] in gateset_sig.BUSY for leaf in Ps.leaves):
            continue  # busy gates are asked about through their circuit only (see ASSUMPTIONS)
        o = lib.outcome(lib.used_qubits, stmt)
        if o[0] != "ok":
            fails.append(("used-qubits-raised-on-statement:" + o[1], {"error": o[2]}))
            break
        info["used_stmt"] += 1
        got = as_sets(o[1])
        exp_s = ref_used_of_tree(Ps, Ps.root, regname)
        if got != exp_s:
            fails.append(("used-set-differs:statement", {"expected": exp_s, "got": got}))
            break
    if not fails:
        try:
            call_site_scopes(s, regname, fails, info)
        except M.OracleError as ex:
            return "inconclusive:oracle:%s" % ex, fails, info
    # (b) emulator acceptance vs overlap
    try:
        scan = P.flat_scan()
    except refexec.Reject as ex:
        info["merge"] = len(MERGE_LOG)
        return "ok", fails, info  # not well bracketed: acceptance is C12's subject
    if scan["trailing_gates"]:
        info["merge"] = len(MERGE_LOG)
        return "ok", fails, info
    ov = P.overlap()
    info["overlap"] = ov is not None
    o = X.run(s, None, seed=1)
    info["merge"] = len(MERGE_LOG)
    info["merge_disjoint"] = sum(1 for d, r in MERGE_LOG if d)
    info["merge_rejections"] = sum(1 for d, r in MERGE_LOG if r)
    if o[0] == "budget":
        return "ok", fails, info
    if o[0] == "exc":
        fails.append(("emulator-raised:" + o[1], {"error": o[2], "overlap": ov}))
        return "ok", fails, info
    if o[0] == "jaqal":
        is_overlap_msg = bool(re.search(r"parallel|branch|overlap|disjoint|same qubit|more than once", o[2], re.I))
        if ov is None and is_overlap_msg:
            fails.append(("rejects-disjoint-program", {"error": o[2]}))
        elif ov is not None and not is_overlap_msg:
            info["other_rejection"] = o[2]
        elif ov is None:
            info["disjoint_rejected_other"] = o[2]
        return "ok", fails, info
    if ov is not None:
        fails.append(("accepts-overlapping-branches", {"block": ov[0], "qubits": ov[1]}))
        return "ok", fails, info
    base_view = X.result_view(o[1])[0]
    # (c) branch permutations
    info["perms"] = 0
    for k in range(2):
        p2 = permute(prog, case.get("permseed", 0) + k)
        if p2 == prog:
            continue
        st2, s2 = X.setup(p2, variant=variant)
        if st2 != "ok":
            continue
        o2 = X.run(s2, None, seed=1)
        info["perms"] += 1
        if o2[0] != "ok":
            fails.append(("permutation-changes-acceptance", {"outcome": str(o2[:3])[:200], "permuted": sx.to_text(p2)}))
            break
        v2 = X.result_view(o2[1])[0]
        if len(v2) != len(base_view) or any(
                not np.allclose(a["state"], b["state"], atol=1e-9) for a, b in zip(base_view, v2)):
            fails.append(("permutation-changes-state", {"permuted": sx.to_text(p2)}))
            break
    return "ok", fails, info


def macro_calls(block):
    """Every statement of the body (at any depth, not inside macro definitions) that calls a macro."""
    out = []

    def walk(x):
        n = type(x).__name__
        if n == "GateStatement":
            if type(x.gate_def).__name__ == "Macro":
                out.append(x)
        elif n == "LoopStatement":
            walk(x.statements)
        elif n == "BlockStatement":
            for y in x.statements:
                walk(y)

    walk(block)
    return out


def call_site_scopes(s, regname, fails, info):
    """The statements of a macro body analysed one by one in the scope of EACH call site
    (get_used_qubit_indices(stmt, context={parameter: argument})): together they use what that call uses."""
    seen = {}
    for call in macro_calls(s.c.body):
        try:
            t = M.full_meaning(_stmt_core(s, call), env={})
        except (M.MeaningError, M.OracleError):
            continue
        Ps = refexec.Program(t if t[0] in ("seq", "par", "loop", "gate") else ("seq", (t,)), s.n)
        if any(leaf.name in ("prepare_all", "measure_all") for leaf in Ps.leaves):
            continue
        exp_s = ref_used_of_tree(Ps, Ps.root, regname)
        ctxd = dict(call.parameters)
        union = {}
        for bs in call.gate_def.body.statements:
            ob = lib.budgeted(lib.used_qubits, 300000, bs, ctxd)
            if ob[0] == "budget":
                fails.append(("used-qubit-analysis-does-not-terminate:macro-body-in-call-site-scope", {"macro": call.name, "steps": ob[1]}))
                return
            if ob[0] != "ok":
                fails.append(("used-qubits-raised-on-macro-body-statement:" + ob[1], {"error": ob[2], "macro": call.name}))
                return
            for k_, v_ in as_sets(ob[1]).items():
                union.setdefault(k_, set()).update(v_)
        info["used_ctx"] = info.get("used_ctx", 0) + 1
        key = tuple(id(v) for v in call.parameters.values())
        if seen.setdefault(call.name, key) != key:
            info["used_ctx_second_site"] = info.get("used_ctx_second_site", 0) + 1
        union = {k_: v_ for k_, v_ in union.items() if v_}
        if union != exp_s:
            fails.append(("used-set-differs:macro-body-in-call-site-scope", {"expected": exp_s, "got": union, "macro": call.name}))
            return


def _stmt_core(s, stmt):
    """Core tree whose body is the single IR statement stmt (declarations shared)."""
    from jaqalpaq.core import Circuit

    c2 = Circuit(native_gates=s.c.native_gates)
    c2.registers.update(s.c.registers)
    c2.constants.update(s.c.constants)
    c2.macros.update(s.c.macros)
    c2.body.statements.append(stmt)
    return M.core_from_ir(c2)


def permute(prog, seed):
    import random

    rng = random.Random(seed)

    def go(s):
        if not isinstance(s, tuple):
            return s
        k = s[0]
        if k == "parallel_block":
            items = [go(x) for x in s[1:]]
            rng.shuffle(items)
            return (k,) + tuple(items)
        if k in ("circuit", "sequential_block", "subcircuit_block", "loop", "macro"):
            return tuple(go(x) if isinstance(x, tuple) else x for x in s)
        return s

    return go(prog)


def _clauses(case):
    return {f[0] for f in judge(case)[1]}


def process(ctx, case, seen):
    rec = ctx.rec
    prog = case_prog(case)
    st, fails, info = judge(case)
    multi = any(s[0] == "parallel_block" and len(s) > 2 for s in sx.walk(prog))
    rec.case([prog, case.get("variant", "A")], nontrivial=multi)
    rec.count("gate-set:" + case.get("variant", "A"))
    if st != "ok":
        rec.count(":".join(st.split(":")[:3]))
        if st.startswith("inconclusive"):
            rec.inconc(st)
        return
    rec.count("judged")
    rec.count("used-circuit-compared", info.get("used_circuit", 0))
    rec.count("used-statement-compared", info.get("used_stmt", 0))
    rec.count("macro-bodies-analysed-in-call-site-scope", info.get("used_ctx", 0))
    rec.count("macro-parameters-given-a-kind", info.get("typed", 0))
    rec.count("macro-bodies-analysed-in-a-second-call-site-scope", info.get("used_ctx_second_site", 0))
    rec.count("merge-decisions-observed", info.get("merge", 0))
    rec.count("merge-decisions-disjoint-mode", info.get("merge_disjoint", 0))
    rec.count("merge-rejections-observed", info.get("merge_rejections", 0))
    rec.count("permutations-compared", info.get("perms", 0))
    if "overlap" in info:
        rec.count("overlap:ref-yes" if info["overlap"] else "overlap:ref-no")
    if "disjoint_rejected_other" in info:
        rec.count("disjoint-but-rejected-for:" + info["disjoint_rejected_other"][:60])
    if "other_rejection" in info:
        rec.count("overlapping-but-rejected-for:" + info["other_rejection"][:60])
    for s in sx.walk(prog):
        if s[0] == "parallel_block":
            names = [x[1] for x in s[1:] if x[0] == "gate"]
            if any(n.startswith("I_") for n in names) and any(not n.startswith("I_") for n in names):
                rec.count("idle-beside-active")
                break
    f = prog_features(prog)
    for clause, detail in fails:
        key = (clause, tuple(sorted(f)))
        seen[key] = seen.get(key, 0) + 1
        if seen[key] > 2:
            rec.count("unminimised-repeat:" + clause)
            continue
        base = {k: v for k, v in case.items() if k != "prog"}
        small = minimise.minimise(prog, lambda p: clause in _clauses(dict(base, prog=p)), budget=150)
        small_case = dict(base, prog=small)
        d2 = [x for x in judge(small_case)[1] if x[0] == clause]
        rec.violation(sig("C13", clause, prog_features(small)), d2[0][1] if d2 else detail, small_case)


def whole_register_probe(ctx, count):
    """Whole registers and aliases as gate arguments (gates with a register parameter, also through a macro's register
    parameter): the analysis names exactly the elements of that register or alias -- chains of whole, sliced, strided and
    counting-down aliases, bounds literal or by let.  Only the analysis is judged (such gates have no unitary here)."""
    from . import c06

    rec, rng = ctx.rec, ctx.rng
    for _ in range(count):
        nq = rng.randint(2, 7)
        chain, cur = [], nq
        for _k in range(rng.randint(1, 3)):
            spec = rng.choice(c06.level_specs(cur))
            chain.append(spec)
            cur = c06.spec_len(spec, cur)
        lets, hdr, names = {}, [], ["q"]

        def val(v):
            if rng.random() < 0.3:
                nm = "c%d" % v if v >= 0 else "m%d" % -v
                lets[nm] = v
                return nm
            return v

        for li, spec in enumerate(chain):
            nm = "a%d" % li
            hdr.append(("map", nm, names[-1]) if spec[0] == "whole" else ("map", nm, names[-1], val(spec[1]), val(spec[2]), val(spec[3])))
            names.append(nm)
        body = [("gate", "W", nm) for nm in names] + [("gate", "mw", nm) for nm in names[1:]]
        if len(names) > 2:
            body.append(("sequential_block", ("gate", "W2", names[-1], names[1])))
        prog = ("circuit",) + tuple(("let", k, v) for k, v in lets.items()) + (("register", "q", nq),) + tuple(hdr) + (
            ("macro", "mw", "r", ("sequential_block", ("gate", "W", "r"))),) + tuple(body)
        rec.case([prog, "whole-register"], nontrivial=True)
        o = lib.outcome(lib.parse, sx.to_text(prog))
        if o[0] != "ok":
            rec.violation(sig("C13", "rejects-valid-program:whole-register-arguments"), {"error": str(o[1:3])[:200], "text": sx.to_text(prog)},
                          {"kind": "whole", "prog": prog})
            continue
        c = o[1]
        core = M.core_from_sx(prog)
        ev = M.Evaluator(core, env={}, resolve=True)
        want_all = set()
        stmts = list(c.body.statements)
        for st_sx, st in zip(body, stmts):
            args = [a for a in sx.walk(st_sx) if a[0] == "gate"][0][2:] if st_sx[0] != "gate" else st_sx[2:]
            want = set()
            for a in args:
                want |= {e[2] for e in ev.elems(core.regs[a], {})}
            want_all |= want
            for how, fn in (("statement", lambda: lib.used_qubits(st)), ("statement-after-lets", None)):
                if fn is None:
                    continue
                og = lib.outcome(fn)
                got = {i for k, v in dict(og[1]).items() for i in v} if og[0] == "ok" else None
                rec.count("whole-register-arguments-analysed")
                if got != want:
                    rec.violation(sig("C13", "used-qubits-wrong:whole-register-argument"),
                                  {"statement": sx.to_text(("circuit", st_sx)).strip(), "expected": sorted(want), "got": sorted(got) if got is not None else str(og[1:3])[:160],
                                   "text": sx.to_text(prog)}, {"kind": "whole", "prog": prog})
                    break
        for tag, cc in (("circuit", c), ("circuit-after-lets", None)):
            if cc is None:
                of = lib.outcome(lib.fill_in_let, c)
                if of[0] != "ok":
                    continue
                cc = of[1]
            og = lib.outcome(lib.used_qubits, cc)
            got = {i for k, v in dict(og[1]).items() for i in v} if og[0] == "ok" else None
            rec.count("whole-register-arguments-analysed")
            if got != want_all:
                rec.violation(sig("C13", "used-qubits-wrong:whole-register-argument:" + tag),
                              {"expected": sorted(want_all), "got": sorted(got) if got is not None else str(og[1:3])[:160], "text": sx.to_text(prog)},
                              {"kind": "whole", "prog": prog})


def busy_beside(rng, prog, stretched):
    """A parallel block in some prepare/measure section with the busy native gate (or its stretched variant) in one branch
    and a gate on a third qubit in the other: disjoint by their arguments, but a busy gate uses every qubit."""
    reg = [s for s in prog[1:] if s[0] == "register"]
    if len(reg) != 1 or not isinstance(reg[0][2], int) or reg[0][2] < 3:
        return None
    name, n = reg[0][1], reg[0][2]
    out, done, open_ = [], False, False
    for s in prog[1:]:
        out.append(s)
        if s == ("gate", "prepare_all"):
            open_ = True
        elif s == ("gate", "measure_all"):
            open_ = False
        if open_ and not done and s[0] not in sx.HEADER and s[0] != "macro" and rng.random() < 0.5:
            i, j, k = rng.sample(range(n), 3)
            busy = ("gate", "GZZ" + (gateset_sig.STRETCH_SUFFIX if stretched else ""), ("array_item", name, i), ("array_item", name, j), 0.3) + ((2.0,) if stretched else ())
            branches = [busy, ("gate", "X", ("array_item", name, k))]
            rng.shuffle(branches)
            out.append(("parallel_block",) + tuple(branches))
            done = True
    return ("circuit",) + tuple(out) if done else None


def bounding_gate_in_parallel_probe(ctx, count):
    """The gates that bound a subcircuit are busy gates: they use every qubit.  A parallel block with prepare_all or
    measure_all in one branch -- directly, at the end of a sequential branch, or through a parameterless macro -- and a gate
    on some qubit in another branch has intersecting branches and is refused (JaqalError), in either order of the branches,
    by the emulator and by the reader of hardware output lists (the same walk)."""
    rec, rng = ctx.rec, ctx.rng
    for _ in range(count):
        n = rng.randint(1, 4)
        k = rng.randrange(n)
        bound = rng.choice(["prepare_all", "measure_all"])
        how = rng.choice(["direct", "in-sequential-branch", "through-a-macro", "idle-beside"])
        act = ("gate", rng.choice(["X", "H", "S"]), ("array_item", "q", k))
        macros = ()
        if how == "direct":
            b = ("gate", bound)
        elif how == "in-sequential-branch":
            other = ("gate", "X", ("array_item", "q", (k + 1) % n))
            b = ("sequential_block", other, ("gate", bound)) if bound == "measure_all" else ("sequential_block", ("gate", bound), other)
            if n == 1:
                b = ("sequential_block", ("gate", bound))
        elif how == "through-a-macro":
            macros = (("macro", "reset", ("sequential_block", ("gate", bound))),)
            b = ("gate", "reset")
        else:
            b = ("gate", bound)
        branches = [b, act]
        if rng.random() < 0.5:
            branches.reverse()
        par = ("parallel_block",) + tuple(branches)
        where = rng.choice(["top", "in-loop", "in-block"])
        wrapped = {"top": par, "in-loop": ("loop", rng.choice([1, 2]), ("sequential_block", par)), "in-block": ("sequential_block", par)}[where]
        body = [("gate", "prepare_all")] + ([("gate", "X", ("array_item", "q", k))] if rng.random() < 0.5 else []) + [wrapped, ("gate", "measure_all")]
        prog = ("circuit", ("register", "q", n)) + macros + tuple(body)
        text = sx.to_text(prog)
        rec.case([prog, "bounding-in-parallel"], nontrivial=True)
        o = lib.outcome(lib.parse, text, X.native())
        if o[0] != "ok":
            rec.count("bounding-gate-in-a-parallel-block:refused-when-parsed")
            if o[0] == "exc":
                rec.violation(sig("C13", "bounding-gate-in-parallel:crash:parse"), {"text": text, "error": str(o[1:3])[:200]}, {"kind": "whole", "prog": prog})
            continue
        for consumer in ("emulator", "output-list"):
            if consumer == "emulator":
                r = lib.budgeted(lib.run, 200000, o[1])
            else:
                r = lib.budgeted(lib.parse_output, 200000, o[1], [0] * 8)
            rec.count("bounding-gate-in-a-parallel-block:" + consumer)
            if r[0] == "ok":
                rec.violation(sig("C13", "accepts-overlapping-branches:bounding-gate-in-a-parallel-block:%s:%s" % (how, consumer)),
                              {"text": text, "branch": how, "where": where}, {"kind": "whole", "prog": prog})
            elif r[0] == "exc":
                rec.violation(sig("C13", "bounding-gate-in-parallel:crash:%s:%s" % (consumer, r[1])), {"text": text, "error": str(r[1:3])[:200]}, {"kind": "whole", "prog": prog})


def shard(ctx):
    rec = ctx.rec
    monitors.install_contracts()
    wrap_merge()
    n = ctx.scale(8000, 150000)
    seen = {}
    i = 0
    while i < n and not rec.expired():
        i += 1
        rng = ctx.rng
        size = rng.choice([2, 3, 3, 4, 4, 5])
        regm = rng.random() < 0.3  # bias to macros with a register parameter, called with several registers / aliases
        g = gen.ExecGen(rng, reg_size=(size, size), max_depth=rng.choice([2, 3]), body_len=(1, 3) if not regm else (3, 6),
                        n_maps=(0, 4) if not regm else (2, 4), n_macros=(0, 3) if not regm else (1, 3),
                        p_overlap=rng.choice([0.0, 0.0, 0.3, 0.6]), p_idle=0.4, p_let_reg=0.25,
                        p_let_index=0.4, p_reg_macro=0.7 if regm else 0.15, p_shadow=rng.choice([0.35, 0.8]))
        prog = g.program()
        case = {"prog": prog, "permseed": rng.randrange(1 << 20)}
        if rng.random() < 0.3:
            case["variant"] = "Ad"  # every gate definition derived by copy() from one that was already used
        if rng.random() < 0.25:
            case["typed"] = True
        if rng.random() < 0.2 and not case.get("typed"):
            # the circuit put together through the CircuitBuilder (loops, macros built at once or unevaluated)
            case["bseed"] = rng.randrange(1 << 30)
            rec.count("circuits-built-through-CircuitBuilder")
        if rng.random() < 0.15:
            st_ = rng.random() < 0.5
            bp = busy_beside(rng, prog, st_)
            if bp is not None:
                case["prog"] = bp
                if st_:
                    case["variant"] = "As"
                rec.count("busy-gate-beside-active" + (":stretched" if st_ else ""))
        process(ctx, case, seen)
        if i <= 3:
            rec.sample({"text": sx.to_text(prog)})
    whole_register_probe(ctx, 150 if ctx.quick else 3000)
    bounding_gate_in_parallel_probe(ctx, 60 if ctx.quick else 1500)
    monitors.report_contracts(rec)


def replay(ctx, case):
    if case.get("kind") == "whole":
        print("whole-register probes are replayed by re-running the check; the program is in the replay file")
        return
    wrap_merge()
    st, fails, info = judge(case)
    prog = case_prog(case)
    for clause, detail in fails:
        ctx.rec.violation(sig("C13", clause, prog_features(prog)), detail, case)
