"""C13 -- used-qubit analysis is exact; overlapping parallel branches are rejected."""
import re

import numpy as np

from .. import sx, gen, lib, meaning as M, monitors, minimise, gateset, refexec, apiroute
from .common import prog_features, sig, case_prog
from . import execcommon as X

RULE = ("executable programs over the native gate set with aliases-of-aliases and strided slices, macro parameters as qubits, "
        "parallel blocks with 1-4 branches (gates or sequential sub-blocks) with controlled overlap probability, idle gates "
        "beside active gates on the same qubit, let-valued indices and let-sized registers. (a) get_used_qubit_indices on the "
        "circuit and on every top-level statement and macro-free sub-statement vs the reference used set; (b) emulator "
        "acceptance vs the reference overlap scan; (c) branch permutations: same acceptance and same states. "
        "non-trivial = program has a parallel block with >= 2 branches; distinct = S-expression")
ASSUMPTIONS = ["statement-level queries on busy gates are made through the circuit only",
               "reference used set = syntactic reachability through macros, loops of any count, nested blocks, aliases, lets; busy = all qubits, idle = none"]
TIERS = {"quick": {"shards": 8, "budget_s": 80}, "thorough": {"shards": 16, "budget_s": 360}}
REQUIRE = {"macro-parameters-given-a-kind": 500, "macro-bodies-analysed-in-a-second-call-site-scope": 100, "macro-bodies-analysed-in-call-site-scope": 300, "gate-set:Ad": 500, "overlap:ref-yes": 100, "overlap:ref-no": 300, "used-circuit-compared": 500, "used-statement-compared": 500,
           "permutations-compared": 100, "merge-decisions-observed": 500, "idle-beside-active": 10}

MERGE_LOG = []
_WRAPPED = [False]


def wrap_merge():
    """Event log of every merge_into decision taken by the real analysis."""
    if _WRAPPED[0]:
        return
    from jaqalpaq.core.algorithm.used_qubit_visitor import UsedQubitIndicesVisitor
    from jaqalpaq.error import JaqalError

    orig = UsedQubitIndicesVisitor.merge_into

    def merge_into(self, tgt_dict, src_dict, disjoint=False):
        try:
            r = orig(self, tgt_dict, src_dict, disjoint=disjoint)
            MERGE_LOG.append((bool(disjoint), False))
            return r
        except JaqalError:
            MERGE_LOG.append((bool(disjoint), True))
            raise

    UsedQubitIndicesVisitor.merge_into = merge_into
    _WRAPPED[0] = True


def as_sets(d):
    return {k: set(v) for k, v in dict(d).items() if v}


def ref_used_of_tree(P, nd, regname):
    u = P.used(nd)
    return {regname: set(u)} if u else {}


def judge(case):
    prog = case_prog(case)
    variant = case.get("variant", "A")
    st, s = X.setup(prog, variant=variant)
    if st != "ok":
        return st, [], None
    P = s.P
    if P.repeated_qubit_gate() is not None:
        return "skipped:gate-on-repeated-qubit", [], None
    ntyped = 0
    if case.get("typed"):
        # macros re-made from core constructors with typed parameters (apiroute.type_macro_parameters)
        ot = lib.outcome(apiroute.type_macro_parameters, s.c)
        if ot[0] != "ok":
            return "inconclusive:cannot-type-macros:%s" % (ot[2],), [], None
        s.c, ntyped = ot[1]
    regname = s.core.fundamental()[0][1]
    fails = []
    info = {"merge": 0, "typed": ntyped}
    del MERGE_LOG[:]
    # (a) circuit-level used set
    o = lib.outcome(lib.used_qubits, s.c)
    exp = ref_used_of_tree(P, P.root, regname)
    if o[0] == "exc":
        fails.append(("used-qubits-raised:" + o[1], {"error": o[2]}))
    elif o[0] == "jaqal":
        fails.append(("used-qubits-rejected", {"error": o[2]}))
    else:
        info["used_circuit"] = 1
        got = as_sets(o[1])
        if got != exp:
            fails.append(("used-set-differs:circuit", {"expected": exp, "got": got}))
    # statement level: every top-level body statement that holds no busy gate
    stmts = s.c.body.statements
    trees = s.tree[1] if s.tree[0] == "seq" else (s.tree,)
    # the normal form flattens; recompute per-statement reference from each statement's own meaning
    info["used_stmt"] = 0
    for stmt in stmts:
        try:
            k1 = M.Core()
            k1.lets, k1.regs, k1.macros = s.core.lets, s.core.regs, s.core.macros
            from ..meaning import core_from_ir  # noqa: F401
            sub_core = _stmt_core(s, stmt)
        except M.OracleError as ex:
            return "inconclusive:oracle:%s" % ex, fails, info
        if sub_core is None:
            continue
        try:
            t = M.full_meaning(sub_core, env={})
        except M.MeaningError:
            continue
        Ps = refexec.Program(t if t[0] in ("seq", "par", "loop", "gate") else ("seq", (t,)), s.n)
        if any(leaf.name in ("prepare_all", "measure_all") for leaf in Ps.leaves):
            continue
        o = lib.outcome(lib.used_qubits, stmt)
        if o[0] != "ok":
            fails.append(("used-qubits-raised-on-statement:" + o[1], {"error": o[2]}))
            break
        info["used_stmt"] += 1
        got = as_sets(o[1])
        exp_s = ref_used_of_tree(Ps, Ps.root, regname)
        if got != exp_s:
            fails.append(("used-set-differs:statement", {"expected": exp_s, "got": got}))
            break
    if not fails:
        try:
            call_site_scopes(s, regname, fails, info)
        except M.OracleError as ex:
            return "inconclusive:oracle:%s" % ex, fails, info
    # (b) emulator acceptance vs overlap
    try:
        scan = P.flat_scan()
    except refexec.Reject as ex:
        info["merge"] = len(MERGE_LOG)
        return "ok", fails, info  # not well bracketed: acceptance is C12's subject
    if scan["trailing_gates"]:
        info["merge"] = len(MERGE_LOG)
        return "ok", fails, info
    ov = P.overlap()
    info["overlap"] = ov is not None
    o = X.run(s, None, seed=1)
    info["merge"] = len(MERGE_LOG)
    info["merge_disjoint"] = sum(1 for d, r in MERGE_LOG if d)
    info["merge_rejections"] = sum(1 for d, r in MERGE_LOG if r)
    if o[0] == "budget":
        return "ok", fails, info
    if o[0] == "exc":
        fails.append(("emulator-raised:" + o[1], {"error": o[2], "overlap": ov}))
        return "ok", fails, info
    if o[0] == "jaqal":
        is_overlap_msg = bool(re.search(r"parallel|branch|overlap|disjoint|same qubit|more than once", o[2], re.I))
        if ov is None and is_overlap_msg:
            fails.append(("rejects-disjoint-program", {"error": o[2]}))
        elif ov is not None and not is_overlap_msg:
            info["other_rejection"] = o[2]
        elif ov is None:
            info["disjoint_rejected_other"] = o[2]
        return "ok", fails, info
    if ov is not None:
        fails.append(("accepts-overlapping-branches", {"block": ov[0], "qubits": ov[1]}))
        return "ok", fails, info
    base_view = X.result_view(o[1])[0]
    # (c) branch permutations
    info["perms"] = 0
    for k in range(2):
        p2 = permute(prog, case.get("permseed", 0) + k)
        if p2 == prog:
            continue
        st2, s2 = X.setup(p2, variant=variant)
        if st2 != "ok":
            continue
        o2 = X.run(s2, None, seed=1)
        info["perms"] += 1
        if o2[0] != "ok":
            fails.append(("permutation-changes-acceptance", {"outcome": str(o2[:3])[:200], "permuted": sx.to_text(p2)}))
            break
        v2 = X.result_view(o2[1])[0]
        if len(v2) != len(base_view) or any(
                not np.allclose(a["state"], b["state"], atol=1e-9) for a, b in zip(base_view, v2)):
            fails.append(("permutation-changes-state", {"permuted": sx.to_text(p2)}))
            break
    return "ok", fails, info


def macro_calls(block):
    """Every statement of the body (at any depth, not inside macro definitions) that calls a macro."""
    out = []

    def walk(x):
        n = type(x).__name__
        if n == "GateStatement":
            if type(x.gate_def).__name__ == "Macro":
                out.append(x)
        elif n == "LoopStatement":
            walk(x.statements)
        elif n == "BlockStatement":
            for y in x.statements:
                walk(y)

    walk(block)
    return out


def call_site_scopes(s, regname, fails, info):
    """The statements of a macro body analysed one by one in the scope of EACH call site
    (get_used_qubit_indices(stmt, context={parameter: argument})): together they use what that call uses."""
    seen = {}
    for call in macro_calls(s.c.body):
        try:
            t = M.full_meaning(_stmt_core(s, call), env={})
        except (M.MeaningError, M.OracleError):
            continue
        Ps = refexec.Program(t if t[0] in ("seq", "par", "loop", "gate") else ("seq", (t,)), s.n)
        if any(leaf.name in ("prepare_all", "measure_all") for leaf in Ps.leaves):
            continue
        exp_s = ref_used_of_tree(Ps, Ps.root, regname)
        ctxd = dict(call.parameters)
        union = {}
        for bs in call.gate_def.body.statements:
            ob = lib.budgeted(lib.used_qubits, 300000, bs, ctxd)
            if ob[0] == "budget":
                fails.append(("used-qubit-analysis-does-not-terminate:macro-body-in-call-site-scope", {"macro": call.name, "steps": ob[1]}))
                return
            if ob[0] != "ok":
                fails.append(("used-qubits-raised-on-macro-body-statement:" + ob[1], {"error": ob[2], "macro": call.name}))
                return
            for k_, v_ in as_sets(ob[1]).items():
                union.setdefault(k_, set()).update(v_)
        info["used_ctx"] = info.get("used_ctx", 0) + 1
        key = tuple(id(v) for v in call.parameters.values())
        if seen.setdefault(call.name, key) != key:
            info["used_ctx_second_site"] = info.get("used_ctx_second_site", 0) + 1
        union = {k_: v_ for k_, v_ in union.items() if v_}
        if union != exp_s:
            fails.append(("used-set-differs:macro-body-in-call-site-scope", {"expected": exp_s, "got": union, "macro": call.name}))
            return


def _stmt_core(s, stmt):
    """Core tree whose body is the single IR statement stmt (declarations shared)."""
    from jaqalpaq.core import Circuit

    c2 = Circuit(native_gates=s.c.native_gates)
    c2.registers.update(s.c.registers)
    c2.constants.update(s.c.constants)
    c2.macros.update(s.c.macros)
    c2.body.statements.append(stmt)
    return M.core_from_ir(c2)


def permute(prog, seed):
    import random

    rng = random.Random(seed)

    def go(s):
        if not isinstance(s, tuple):
            return s
        k = s[0]
        if k == "parallel_block":
            items = [go(x) for x in s[1:]]
            rng.shuffle(items)
            return (k,) + tuple(items)
        if k in ("circuit", "sequential_block", "subcircuit_block", "loop", "macro"):
            return tuple(go(x) if isinstance(x, tuple) else x for x in s)
        return s

    return go(prog)


def _clauses(case):
    return {f[0] for f in judge(case)[1]}


def process(ctx, case, seen):
    rec = ctx.rec
    prog = case_prog(case)
    st, fails, info = judge(case)
    multi = any(s[0] == "parallel_block" and len(s) > 2 for s in sx.walk(prog))
    rec.case([prog, case.get("variant", "A")], nontrivial=multi)
    rec.count("gate-set:" + case.get("variant", "A"))
    if st != "ok":
        rec.count(":".join(st.split(":")[:3]))
        if st.startswith("inconclusive"):
            rec.inconc(st)
        return
    rec.count("judged")
    rec.count("used-circuit-compared", info.get("used_circuit", 0))
    rec.count("used-statement-compared", info.get("used_stmt", 0))
    rec.count("macro-bodies-analysed-in-call-site-scope", info.get("used_ctx", 0))
    rec.count("macro-parameters-given-a-kind", info.get("typed", 0))
    rec.count("macro-bodies-analysed-in-a-second-call-site-scope", info.get("used_ctx_second_site", 0))
    rec.count("merge-decisions-observed", info.get("merge", 0))
    rec.count("merge-decisions-disjoint-mode", info.get("merge_disjoint", 0))
    rec.count("merge-rejections-observed", info.get("merge_rejections", 0))
    rec.count("permutations-compared", info.get("perms", 0))
    if "overlap" in info:
        rec.count("overlap:ref-yes" if info["overlap"] else "overlap:ref-no")
    if "disjoint_rejected_other" in info:
        rec.count("disjoint-but-rejected-for:" + info["disjoint_rejected_other"][:60])
    if "other_rejection" in info:
        rec.count("overlapping-but-rejected-for:" + info["other_rejection"][:60])
    for s in sx.walk(prog):
        if s[0] == "parallel_block":
            names = [x[1] for x in s[1:] if x[0] == "gate"]
            if any(n.startswith("I_") for n in names) and any(not n.startswith("I_") for n in names):
                rec.count("idle-beside-active")
                break
    f = prog_features(prog)
    for clause, detail in fails:
        key = (clause, tuple(sorted(f)))
        seen[key] = seen.get(key, 0) + 1
        if seen[key] > 2:
            rec.count("unminimised-repeat:" + clause)
            continue
        base = {k: v for k, v in case.items() if k != "prog"}
        small = minimise.minimise(prog, lambda p: clause in _clauses(dict(base, prog=p)), budget=150)
        small_case = dict(base, prog=small)
        d2 = [x for x in judge(small_case)[1] if x[0] == clause]
        rec.violation(sig("C13", clause, prog_features(small)), d2[0][1] if d2 else detail, small_case)


def shard(ctx):
    rec = ctx.rec
    monitors.install_contracts()
    wrap_merge()
    n = ctx.scale(8000, 150000)
    seen = {}
    i = 0
    while i < n and not rec.expired():
        i += 1
        rng = ctx.rng
        size = rng.choice([2, 3, 3, 4, 4, 5])
        regm = rng.random() < 0.3  # bias to macros with a register parameter, called with several registers / aliases
        g = gen.ExecGen(rng, reg_size=(size, size), max_depth=rng.choice([2, 3]), body_len=(1, 3) if not regm else (3, 6),
                        n_maps=(0, 4) if not regm else (2, 4), n_macros=(0, 3) if not regm else (1, 3),
                        p_overlap=rng.choice([0.0, 0.0, 0.3, 0.6]), p_idle=0.4, p_let_reg=0.25,
                        p_let_index=0.4, p_reg_macro=0.7 if regm else 0.15, p_shadow=rng.choice([0.35, 0.8]))
        prog = g.program()
        case = {"prog": prog, "permseed": rng.randrange(1 << 20)}
        if rng.random() < 0.3:
            case["variant"] = "Ad"  # every gate definition derived by copy() from one that was already used
        if rng.random() < 0.25:
            case["typed"] = True
        process(ctx, case, seen)
        if i <= 3:
            rec.sample({"text": sx.to_text(prog)})
    monitors.report_contracts(rec)


def replay(ctx, case):
    wrap_merge()
    st, fails, info = judge(case)
    prog = case_prog(case)
    for clause, detail in fails:
        ctx.rec.violation(sig("C13", clause, prog_features(prog)), detail, case)
