"""Monitors installed by the harness in the check process (no hook is needed in /repo):

* contracts on the real pass / analysis functions (icontract snapshot + ensure on the
  normal-return path, plus an exception-path check) asserting that the *input object's
  identity-aware fingerprint is unchanged* -- property C11's invariant; every check runs
  with them on, so every check is also C11 workload (they only *record* outside C11);
* logical step budgets and reach counters with sys.monitoring (LINE / PY_START events
  restricted to jaqalpaq code objects);
* an audit hook logging import/open/exec events during library calls.
"""
import os
import sys
import types

import icontract

from .fingerprint import fp, fp_diff

if os.environ.get("JAQALPAQ_VERIF") != "1":  # the guard: monitors refuse to install outside a check
    raise ImportError("vf.monitors: JAQALPAQ_VERIF is not set")


class InputMutated(Exception):
    pass


CONTRACT_EVALS = {}
CONTRACT_FAILS = []  # (function name, path, description)
_INSTALLED = {}
RAISE_ON_FAIL = False

# (module, attribute) of every function whose first argument must not be modified
TARGETS = [
    ("jaqalpaq.core.algorithm.expand_macros", "expand_macros"),
    ("jaqalpaq.core.algorithm.fill_in_let", "fill_in_let"),
    ("jaqalpaq.core.algorithm.fill_in_map", "fill_in_map"),
    ("jaqalpaq.core.algorithm.expand_subcircuits", "expand_subcircuits"),
    ("jaqalpaq.core.algorithm.unit_timing", "normalize_blocks_with_unitary_timing"),
    ("jaqalpaq.core.algorithm.used_qubit_visitor", "get_used_qubit_indices"),
    ("jaqalpaq.generator.generator", "generate_jaqal_program"),
    ("jaqalpaq.run.run", "run_jaqal_circuit"),
    ("jaqalpaq.core.result", "parse_jaqal_output_list"),
]


def _make_wrapper(name, fn):
    # named condition functions whose argument names match the shim's (icontract requirement)
    def input_unchanged(circuit, OLD):
        CONTRACT_EVALS[name] = CONTRACT_EVALS.get(name, 0) + 1
        try:
            now = fp(circuit)
        except RecursionError:
            return True
        if OLD.inp is None:
            return True
        if now != OLD.inp:
            CONTRACT_FAILS.append((name, "return", fp_diff(OLD.inp, now)))
            return not RAISE_ON_FAIL
        return True

    def capture(circuit):
        try:
            return fp(circuit)
        except RecursionError:
            return None

    def shim(circuit, *rest, **kwargs):
        return fn(circuit, *rest, **kwargs)

    shim.__name__ = fn.__name__
    shim.__qualname__ = fn.__qualname__
    shim.__doc__ = fn.__doc__
    checked = icontract.snapshot(capture, name="inp")(
        icontract.ensure(input_unchanged, error=InputMutated)(shim)
    )

    # icontract does not evaluate postconditions after a raise: check that path here
    def wrapper2(*args, **kwargs):
        if not args and kwargs:  # first parameter passed by keyword
            k0 = next(iter(kwargs))
            args = (kwargs.pop(k0),)
        target = args[0] if args else None
        try:
            before = fp(target)
        except RecursionError:
            # the monitor's own walk is too deep for this object: observe nothing rather than
            # raise an exception the library did not raise
            CONTRACT_EVALS[name + ":skipped-too-deep"] = CONTRACT_EVALS.get(name + ":skipped-too-deep", 0) + 1
            return fn(*args, **kwargs)
        try:
            return checked(*args, **kwargs)
        except InputMutated:
            raise
        except BaseException:
            CONTRACT_EVALS[name + ":raise"] = CONTRACT_EVALS.get(name + ":raise", 0) + 1
            try:
                now = fp(target)
            except RecursionError:
                now = before
            if now != before:
                CONTRACT_FAILS.append((name, "raise", fp_diff(before, now)))
            raise

    wrapper2.__name__ = fn.__name__
    wrapper2.__qualname__ = fn.__qualname__
    wrapper2.__doc__ = fn.__doc__
    wrapper2.__wrapped__ = fn
    wrapper2._vf_contract = True
    return wrapper2


def install_contracts():
    """Wrap the targets and rebind *every* reference to them in jaqalpaq modules
    (defining submodule, package re-exports, `from x import f` copies)."""
    import importlib

    if _INSTALLED:
        return _INSTALLED
    # make sure all modules holding copies are imported first
    for m in ("jaqalpaq.parser.parser", "jaqalpaq.run.run", "jaqalpaq.core.result", "jaqalpaq.generator",
              "jaqalpaq.emulator", "jaqalpaq.qsyntax.qsyntax", "jaqalpaq.core.algorithm",
              "jaqalpaq.core.algorithm.fill_in_map"):
        try:
            importlib.import_module(m)
        except Exception:
            pass
    for modname, attr in TARGETS:
        importlib.import_module(modname)
        mod = sys.modules[modname]
        orig = getattr(mod, attr)
        if getattr(orig, "_vf_contract", False):
            continue
        wrapped = _make_wrapper(attr, orig)
        n = 0
        for mname, m in list(sys.modules.items()):
            if m is None or not (mname == "jaqalpaq" or mname.startswith("jaqalpaq.")):
                continue
            for k, v in list(vars(m).items()):
                if v is orig:
                    setattr(m, k, wrapped)
                    n += 1
        _INSTALLED[attr] = (orig, wrapped, n)
    return _INSTALLED


def drain_contract_failures():
    out = list(CONTRACT_FAILS)
    del CONTRACT_FAILS[:]
    return out


def report_contracts(rec, as_violation=False, prop="C11"):
    """Move contract observations into a Recorder (counters always; violations only for C11)."""
    for name, n in CONTRACT_EVALS.items():
        rec.counters["contract_evals:" + name] = n
    fails = drain_contract_failures()
    for name, path, desc in fails:
        rec.count("contract_input_mutated:" + name)
        if as_violation:
            rec.violation("%s:input-mutated:%s:%s" % (prop, name, path), {"function": name, "path": path, "diff": desc})
        else:
            rec.note("input_mutation_observed:" + name, desc)
    return fails


# ---------------------------------------------------------------------------
# step budgets and reach counters (sys.monitoring, Python 3.12)
# ---------------------------------------------------------------------------


class StepBudgetExceeded(BaseException):
    """Raised from the LINE callback when a call exceeds its logical step budget.
    BaseException so that `except Exception` in library code cannot swallow it."""


class StepMonitor:
    """Counts LINE events in jaqalpaq code objects whose file name ends with one of
    `files` (None = every jaqalpaq file).  One instance per process."""

    _instance = None

    def __init__(self, files=None, tool_id=None):
        mon = sys.monitoring
        self.mon = mon
        self.tool = mon.PROFILER_ID if tool_id is None else tool_id
        self.files = tuple(files) if files else None
        self.steps = 0
        self.budget = None
        self.max_ratio = 0.0
        self.reach = {}
        self.reach_codes = {}
        self.active = False
        mon.use_tool_id(self.tool, "vf-steps")
        mon.register_callback(self.tool, mon.events.LINE, self._line)
        mon.register_callback(self.tool, mon.events.PY_START, self._start)

    def _mine(self, code):
        fn = code.co_filename
        if "jaqalpaq" not in fn:
            return False
        if self.files is None:
            return True
        return fn.endswith(self.files)

    def _line(self, code, line):
        if not self._mine(code):
            return self.mon.DISABLE
        self.steps += 1
        if self.budget is not None and self.steps > self.budget:
            self.budget = None  # raise once; the caller resets
            raise StepBudgetExceeded("more than the step budget of logical steps in %s:%d" % (code.co_filename, line))

    def _start(self, code, offset):
        if "jaqalpaq" not in code.co_filename:
            return self.mon.DISABLE
        k = code.co_qualname
        self.reach[k] = self.reach.get(k, 0) + 1

    def start(self, lines=True, reach=False):
        ev = 0
        if lines:
            ev |= self.mon.events.LINE
        if reach:
            ev |= self.mon.events.PY_START
        self.mon.set_events(self.tool, ev)
        self.active = True

    def stop(self):
        self.mon.set_events(self.tool, 0)
        self.active = False

    def run(self, fn, budget):
        """Run fn() under a step budget.  Returns ('ok', value, steps) | ('budget', None, steps)
        | ('raise', exc, steps)."""
        self.steps = 0
        self.budget = budget
        try:
            v = fn()
            return ("ok", v, self.steps)
        except StepBudgetExceeded:
            return ("budget", None, self.steps)
        except Exception as ex:
            return ("raise", ex, self.steps)
        finally:
            self.budget = None

    def close(self):
        self.stop()
        self.mon.free_tool_id(self.tool)


# ---------------------------------------------------------------------------
# audit hook
# ---------------------------------------------------------------------------

AUDIT_LOG = []
_AUDIT_ON = [False]
_AUDIT_INSTALLED = [False]


def _audit(event, args):
    if not _AUDIT_ON[0]:
        return
    if event in ("import", "open", "exec", "compile", "os.remove", "os.rename", "os.mkdir", "subprocess.Popen",
                 "socket.connect"):
        try:
            if event == "import":
                AUDIT_LOG.append((event, args[0]))
            elif event == "open":
                AUDIT_LOG.append((event, str(args[0]), args[1]))
            else:
                AUDIT_LOG.append((event,))
        except Exception:
            pass


def audit(on):
    if not _AUDIT_INSTALLED[0]:
        sys.addaudithook(_audit)
        _AUDIT_INSTALLED[0] = True
    _AUDIT_ON[0] = bool(on)
    if on:
        del AUDIT_LOG[:]
