#!/usr/bin/env python3
"""tools/kf.py add <id> <property> <status> <commit|-> <sigs,comma|-> <what> [witness]  -- maintain known_findings.json by hand."""
import json, sys
p = "known_findings.json"
d = json.load(open(p))
cmd = sys.argv[1]
if cmd == "add":
    _, _, kid, prop, status, commit, sigs, what = sys.argv[:8]
    witness = sys.argv[8] if len(sys.argv) > 8 else ""
    d["findings"] = [f for f in d["findings"] if f["id"] != kid]
    e = {"id": kid, "property": prop, "status": status, "commit": None if commit == "-" else commit}
    if status == "fixed":
        e["what"] = "fixed: property=%s %s %s" % (prop, commit, what)
    else:
        e["what"] = what
        e["sigs"] = [] if sigs == "-" else sigs.split(",")
    e["witness"] = witness
    d["findings"].append(e)
json.dump(d, open(p, "w"), indent=1)
print(len(d["findings"]), "entries")
