#!/usr/bin/env python3
"""Run the checks against the seeded property-breaking changes kept under /verif/seeded/<name>/.

    tools/seedtest.py [--tier quick] [--all-checks] [name ...]

For each seeded change: make sure /repo is clean, confirm the demonstration passes on the
unchanged tree, apply patch.diff to /repo (git -C /repo apply), confirm that the pinned test
suite still passes and that the demonstration now fails, run the check(s) of the property it
breaks (all checks with --all-checks), and undo the change straight afterwards
(git -C /repo checkout -- .).  Prints one line per seeded change and writes
seeded/RESULTS.json.  Nothing is ever committed to /repo.
"""
import argparse
import json
import os
import subprocess
import sys
import time

ROOT = os.path.dirname(os.path.dirname(os.path.abspath(__file__)))
REPO = "/repo"
ALL = ["C%02d" % i for i in range(1, 21)]
TESTS = ["/venv/bin/python", "-m", "pytest", "-q", "-p", "no:cacheprovider", "--timeout=120",
         "--deselect", "tests/ipc/test_ipc.py::IPCTester::test_bell_prep"]


def sh(cmd, **kw):
    return subprocess.run(cmd, capture_output=True, text=True, **kw)


def repo_clean():
    return sh(["git", "-C", REPO, "status", "--porcelain", "--untracked-files=no"]).stdout.strip() == ""


def run_demo(path):
    env = dict(os.environ, PYTHONPATH=REPO + "/src", JAQALPAQ_RUN_EMULATOR="1")
    p = sh(["/venv/bin/python", path], env=env, cwd=os.path.dirname(path), timeout=300)
    return p.returncode, (p.stdout + p.stderr)[-600:]


def run_check(pid, tier, seed):
    env = dict(os.environ, VERIF_SEED=str(seed), VERIF_REPO=REPO)
    t0 = time.time()
    # the evidence file describes runs on the unchanged tree: keep it as it was (a run against a seeded change must not
    # end up in a commit)
    ev = os.path.join(ROOT, "evidence", pid + ".json")
    kept = open(ev).read() if os.path.exists(ev) else None
    try:
        p = sh([os.path.join(ROOT, "check"), pid, "--tier", tier], env=env, cwd=ROOT, timeout=3600)
    finally:
        if kept is not None:
            with open(ev, "w") as fd:
                fd.write(kept)
    sigs = [l.strip() for l in p.stdout.splitlines() if l.strip().startswith("signature:")]
    return {"rc": p.returncode, "violations": p.stdout.count("VIOLATION property="), "signatures": sigs[:6],
            "wall_s": round(time.time() - t0, 1)}


def main():
    ap = argparse.ArgumentParser()
    ap.add_argument("names", nargs="*")
    ap.add_argument("--tier", default="quick")
    ap.add_argument("--all-checks", action="store_true")
    ap.add_argument("--seed", type=int, default=0)
    ap.add_argument("--skip-tests", action="store_true")
    ap.add_argument("--dir", default="seeded", help="directory (under /verif) holding <name>/patch.diff + meta.json")
    ap.add_argument("--repo", default="/repo", help="tree to patch: /repo itself (default) or a scratch worktree of it "
                    "outside /repo and /verif (lets the battery run while /repo is being worked on)")
    ap.add_argument("--results", default=None, help="results file (default <dir>/RESULTS.json)")
    a = ap.parse_args()
    global REPO
    REPO = a.repo
    sdir = os.path.join(ROOT, a.dir)
    names = a.names or sorted(d for d in os.listdir(sdir) if os.path.isfile(os.path.join(sdir, d, "patch.diff")))
    results = {}
    respath = a.results or os.path.join(sdir, "RESULTS.json")
    if os.path.exists(respath):
        results = json.load(open(respath))
    if not repo_clean():
        print("refusing: /repo has uncommitted changes")
        return 2
    for name in names:
        d = os.path.join(sdir, name)
        meta = json.load(open(os.path.join(d, "meta.json")))
        pid = meta["property"]
        patch = os.path.join(d, "patch.diff")
        demo = os.path.join(d, meta.get("demo", "demo.py"))
        has_demo = os.path.exists(demo)
        r = {"property": pid, "tier": a.tier}
        try:
            r["demo_before"] = run_demo(demo)[0] if has_demo else 0
            ap_ = sh(["git", "-C", REPO, "apply", patch])
            if ap_.returncode != 0:
                r["error"] = "patch does not apply: " + ap_.stderr[-300:]
                results[name] = r
                print(name, "PATCH-DOES-NOT-APPLY")
                continue
            if not a.skip_tests:
                # the repository's suite draws unseeded random values and runs beside other work: best of up to three runs
                for attempt in range(3):
                    t = sh(TESTS, cwd=REPO, env=dict(os.environ, PYTHONPATH=REPO + "/src"))
                    r["tests"] = t.stdout.strip().splitlines()[-1] if t.stdout.strip() else t.stderr[-200:]
                    r["tests_runs"] = attempt + 1
                    if "297 passed" in r["tests"]:
                        break
            rc, out = run_demo(demo) if has_demo else (1, "no demonstration program (self-written mutant)")
            r["demo_after"] = rc
            r["demo_output"] = out[-300:]
            checks = ALL if a.all_checks else [pid]
            r["checks"] = {c: run_check(c, a.tier, a.seed) for c in checks}
        finally:
            sh(["git", "-C", REPO, "checkout", "--", "."])
        caught = [c for c, v in r.get("checks", {}).items() if v["rc"] == 1]
        r["caught_by"] = caught
        r["valid_seed"] = r.get("demo_before") == 0 and r.get("demo_after", 0) != 0 and "297 passed" in r.get("tests", "297 passed")
        results[name] = r
        print("%-28s property=%s valid=%s caught_by=%s %s" % (name, pid, r["valid_seed"], caught or "NONE",
                                                              {c: v["wall_s"] for c, v in r["checks"].items()} if not a.all_checks else ""))
        for c in caught[:2]:
            for s in r["checks"][c]["signatures"][:2]:
                print("      ", c, s[:160])
        with open(respath, "w") as fd:
            json.dump(results, fd, indent=1)
    assert repo_clean(), "/repo left dirty!"
    return 0


if __name__ == "__main__":
    sys.exit(main())
