#!/usr/bin/env python3
"""tools/merge_tests.py RESULTS.json older.json [older2.json ...] -- a battery run with SKIP_TESTS=1 has no suite result per change;
take it from the results of the run in which the change was first validated."""
import json, sys
res = json.load(open(sys.argv[1]))
for f in sys.argv[2:]:
    try:
        old = json.load(open(f))
    except Exception:
        continue
    for k, v in old.items():
        if k in res and "tests" not in res[k] and "tests" in v:
            res[k]["tests"] = v["tests"]
            res[k]["tests_recorded"] = "when the change was collected / last validated"
json.dump(res, open(sys.argv[1], "w"), indent=1)
print(sum(1 for v in res.values() if "tests" in v), "of", len(res), "have a suite result")
