#!/usr/bin/env python3
"""Collect the deliverables of one round of seeding agents into seeded/<ID>-<k>/.
    tools/collect_seeds.py /tmp/seed3 5      # out/patch1 -> <ID>-5, out/patch2 -> <ID>-6"""
import json
import os
import shutil
import sys

ROOT = os.path.dirname(os.path.dirname(os.path.abspath(__file__)))
src, first = sys.argv[1], int(sys.argv[2])
for i in range(1, 21):
    pid = "C%02d" % i
    out = os.path.join(src, pid, "out")
    for k in (1, 2, 3):
        patch = os.path.join(out, "patch%d.diff" % k)
        if not os.path.exists(patch) or os.path.getsize(patch) == 0:
            continue
        d = os.path.join(ROOT, "seeded", "%s-%d" % (pid, first + k - 1))
        os.makedirs(d, exist_ok=True)
        shutil.copy(patch, os.path.join(d, "patch.diff"))
        demo = os.path.join(out, "demo%d.py" % k)
        if os.path.exists(demo):
            shutil.copy(demo, os.path.join(d, "demo.py"))
        notes = os.path.join(out, "notes%d.md" % k)
        text = open(notes).read() if os.path.exists(notes) else ""
        open(os.path.join(d, "notes.md"), "w").write(text)
        # demos refer to their worktree only through PYTHONPATH; make sure no absolute path is baked in
        body = open(os.path.join(d, "demo.py")).read() if os.path.exists(demo) else ""
        meta = {"property": pid, "origin": "independent sub-agent given only the property text and a scratch worktree (round %d)" % ((first + 1) // 2),
                "demo": "demo.py", "needs_to_manifest": text[:1500], "absolute_paths_in_demo": src in body}
        json.dump(meta, open(os.path.join(d, "meta.json"), "w"), indent=1)
        print(d, "abs-path!" if src in body else "")
