#!/bin/bash
# tools/sweep.sh TIER "SEEDS" [IDs...] -- run checks on the unchanged tree for several VERIF_SEED values, two at a time; one line per run.
# Evidence files are rewritten by every run: finish with seed 0 before committing them.
TIER=$1; SEEDS=$2; shift 2
IDS="$@"; [ -z "$IDS" ] && IDS=$(seq -f 'C%02g' 1 20)
cd "$(dirname "$0")/.."
mkdir -p /tmp/sweep
for seed in $SEEDS; do
  for id in $IDS; do
    echo "$seed $id"
  done
done | xargs -P 2 -L 1 bash -c 'seed=$0; id=$1; VERIF_SEED=$seed ./check $id --tier '"$TIER"' > /tmp/sweep/$id.$seed.log 2>&1; echo "seed $seed $id rc=$? $(grep -c "^VIOLATION" /tmp/sweep/$id.$seed.log) $(grep SUMMARY /tmp/sweep/$id.$seed.log | cut -c1-140) $(grep INCONCLUSIVE /tmp/sweep/$id.$seed.log | head -1 | cut -c1-200)"'
