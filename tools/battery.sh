#!/bin/bash
# tools/battery.sh OUT.json [names...]  -- run tools/seedtest.py over the seeded changes in three processes at once, each on its own
# scratch worktree of /repo's HEAD (outside /repo and /verif), from a snapshot copy of /verif so that work on /verif does not disturb it.
# SKIP_TESTS=1 leaves the pinned suite out (it was run, and recorded, when each change was collected).
# The changes are split by property (no two processes run the same property's check); results are merged into OUT.json.
set -e
OUT=$1; shift
SNAP=/tmp/verif_snap
rsync -a --delete --exclude .git /verif/ $SNAP/
for k in 1 2 3; do
  W=/tmp/bat$k
  if [ -d $W ]; then git -C $W checkout -q -- . ; git -C $W checkout -q --detach $(git -C /repo rev-parse HEAD); else git -C /repo worktree add -q --detach $W HEAD; fi
done
SKIP=""; if [ -n "$SKIP_TESTS" ]; then SKIP="--skip-tests"; fi
NAMES="$@"
if [ -z "$NAMES" ]; then NAMES=$(ls $SNAP/seeded | grep -E '^C[0-9]+-[0-9]+$'); fi
pick() { for n in $NAMES; do p=${n%%-*}; p=${p#C}; p=$((10#$p)); if [ $p -ge $1 ] && [ $p -le $2 ]; then echo -n "$n "; fi; done; }
cd $SNAP
rm -f /tmp/bat_res_[123].json
N1="$(pick 1 8)"; [ -n "$N1" ] && ( python3 tools/seedtest.py $SKIP --repo /tmp/bat1 --results /tmp/bat_res_1.json $N1  > /tmp/bat_1.log 2>&1 ) &
N2="$(pick 9 13)"; [ -n "$N2" ] && ( python3 tools/seedtest.py $SKIP --repo /tmp/bat2 --results /tmp/bat_res_2.json $N2 > /tmp/bat_2.log 2>&1 ) &
N3="$(pick 14 20)"; [ -n "$N3" ] && ( python3 tools/seedtest.py $SKIP --repo /tmp/bat3 --results /tmp/bat_res_3.json $N3 > /tmp/bat_3.log 2>&1 ) &
wait
python3 - "$OUT" <<'PY'
import json, sys, os
out = {}
for k in (1, 2, 3):
    p = "/tmp/bat_res_%d.json" % k
    if os.path.exists(p):
        out.update(json.load(open(p)))
json.dump(dict(sorted(out.items())), open(sys.argv[1], "w"), indent=1)
missed = [n for n, r in out.items() if not r.get("caught_by")]
invalid = [n for n, r in out.items() if not r.get("valid_seed")]
print(len(out), "changes;", "not caught:", missed, "; not valid:", invalid)
PY
