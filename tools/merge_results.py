#!/usr/bin/env python3
"""tools/merge_results.py FILE [FILE...] -- seeded/RESULTS.json := the latest result of every seeded change: the files are read in the
order given, a later file overrides an earlier one change by change (only entries that ran a check); the suite result of a change is
kept from the run in which it was validated when a later run left the suite out (SKIP_TESTS)."""
import json
import os
import sys

ROOT = os.path.dirname(os.path.dirname(os.path.abspath(__file__)))
out = {}
for f in sys.argv[1:]:
    try:
        res = json.load(open(f))
    except Exception as ex:
        print("skipping", f, ex)
        continue
    for name, r in res.items():
        if not isinstance(r, dict) or "checks" not in r:
            continue
        if not os.path.isdir(os.path.join(ROOT, "seeded", name)):
            continue
        old = out.get(name, {})
        if "tests" not in r and "tests" in old:
            r = dict(r, tests=old["tests"], tests_recorded="when the change was collected / last validated")
        r = dict(r, result_from=os.path.basename(f))
        out[name] = r
json.dump(dict(sorted(out.items(), key=lambda kv: (kv[0].split("-")[0], int(kv[0].split("-")[1])))), open(os.path.join(ROOT, "seeded", "RESULTS.json"), "w"), indent=1)
missed = [n for n, r in out.items() if not r.get("caught_by")]
have = set(out)
allnames = {d for d in os.listdir(os.path.join(ROOT, "seeded")) if os.path.isfile(os.path.join(ROOT, "seeded", d, "patch.diff"))}
print(len(out), "changes;", "not flagged by their property's check:", sorted(missed), "; without any result:", sorted(allnames - have))
