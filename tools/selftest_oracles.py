#!/usr/bin/env python3
"""Self-consistency of the oracles (machinery errors, never property violations):
 1. every rendered model program is accepted by the reference parser with the model's tree;
 2. the reference simulator preserves norms and agrees with dense kron-embedded matrices (n <= 3);
 3. the reference meaning agrees with hand-computed expectations;
 4. model front end and IR front end give the same meaning on programs the library parses.
Run:  PYTHONPATH=/repo/src:.deps:. JAQALPAQ_VERIF=1 /venv/bin/python tools/selftest_oracles.py"""
import os
import random
import sys

sys.path.insert(0, os.path.dirname(os.path.dirname(os.path.abspath(__file__))))
import numpy as np

from vf import sx, gen, refparse, refexec, meaning as M, gateset_sig


def t1(n=400):
    for seed in range(n):
        rng = random.Random(seed)
        p = gen.ProgGen(rng, p_hostile_names=0.2, max_depth=4).program()
        for lay in (None, random.Random(seed + 1), random.Random(seed + 2)):
            t = sx.to_text(p, lay)
            r = refparse.parse(t)
            assert r[0] == "ok" and sx.sx_equal_strict(r[1], p), (seed, r[:2], t)
    return n * 3


def t2(n=300):
    k = 0
    for seed in range(n):
        rng = random.Random(seed)
        size = rng.randint(1, 3)
        p = gen.ExecGen(rng, reg_size=(size, size), max_depth=2, n_maps=(0, 2), n_macros=(0, 2)).program()
        core = M.core_from_sx(p)
        try:
            tree = M.full_meaning(core, env={})
        except M.MeaningError:
            continue
        for variant in ("A", "B"):
            P = refexec.Program(tree, size, variant=variant)
            try:
                scan = P.flat_scan()
            except refexec.Reject:
                continue
            if P.repeated_qubit_gate() is not None or P.overlap() is not None:
                continue
            for i in range(len(scan["subs"])):
                if i in P.straddling(scan["subs"]):
                    continue
                st = P.sub_state(scan["subs"], i)
                assert abs(np.linalg.norm(st) - 1) < 1e-9, (seed, i)
                if variant == "A":
                    dense = refexec.dense_check(P, scan["subs"], i)
                    assert np.allclose(st, dense, atol=1e-9), (seed, i)
                k += 1
    return k


def t3():
    prog = ("circuit", ("let", "n", 2), ("register", "q", 4), ("map", "a", "q", 1, 4, 2), ("map", "one", "a", 1),
            ("macro", "f", "x", "k", ("sequential_block", ("gate", "g", "x", ("array_item", "a", "k")), ("loop", "k", ("parallel_block", ("gate", "h", "one"))))),
            ("gate", "f", ("array_item", "q", 0), 1), ("subcircuit_block", "n", ("gate", "g", "one", ("array_item", "q", "n"))))
    core = M.core_from_sx(prog)
    full = M.full_meaning(core, env={})
    want = ("seq", (("gate", "g", (("q", "q", 0), ("q", "q", 3))), ("loop", 1, ("gate", "h", (("q", "q", 3),))),
                    ("gate", "prepare_all", ()), ("gate", "g", (("q", "q", 3), ("q", "q", 2))), ("gate", "measure_all", ())))
    assert M.tree_equal(full, want), full
    raw = M.meaning(core, expand_macros=False)
    assert raw == ("seq", (("gate", "f", (("item", "q", 0), 1)), ("sub", ("let", "n"), ("seq", (("gate", "g", (("alias1", "one"), ("item", "q", ("let", "n")))),))))), raw
    over = M.full_meaning(core, env={"n": 0})
    assert over[1][3] == ("gate", "g", (("q", "q", 3), ("q", "q", 0))), over
    assert refexec.bits(1, 3) == "100" and refexec.bits(6, 3) == "011"
    return 4


def t4(n=300):
    os.environ.setdefault("JAQALPAQ_VERIF", "1")
    from vf import lib, gateset

    G = gateset.make()
    k = 0
    for seed in range(n):
        rng = random.Random(seed)
        exe = seed % 2 == 0
        p = (gen.ExecGen if exe else gen.ProgGen)(rng).program()
        o = lib.outcome(lib.parse, sx.to_text(p), G if exe else None)
        if o[0] != "ok":
            continue
        a, b = M.core_from_ir(o[1]), M.core_from_sx(p)
        assert M.tree_equal(M.meaning(a, expand_macros=False), M.meaning(b, expand_macros=False)), seed
        try:
            fb = M.full_meaning(b)
        except M.MeaningError:
            continue
        assert M.tree_equal(M.full_meaning(a), fb), seed
        k += 1
    return k


if __name__ == "__main__":
    print("reference parser accepts rendered programs:", t1())
    print("simulator norm / dense agreement:", t2())
    print("hand-computed meanings:", t3())
    print("model vs IR front end:", t4())
    print("oracle self-test ok")
