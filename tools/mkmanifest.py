#!/usr/bin/env python3
"""Regenerates MANIFEST.json from the table below (run from /verif)."""
import json
import os

ROOT = os.path.dirname(os.path.dirname(os.path.abspath(__file__)))

TECH = "runtime monitoring: generated workload on the real code + %s"
CHECKS = {
    "C01": ("round trip generate->parse->generate observed on generated programs through both entry routes (text, S-expression build); equality judged by the library's == and by the harness's reference meaning and declarations",
            "reference-model oracle (meaning normal form) and byte comparison of regenerated text"),
    "C02": ("generated derivations rendered with random layouts (separators, padding, comments) must yield the derivation's S-expression and equal circuits; token-level near-misses (incl. look-alike Unicode digits/letters and characters that are no Jaqal white space) judged against an independent lexer and predictive parser for accept/reject, tree and error position; file entry points compared with the string entry points; reductions counted per grammar production of the real LR parser",
            "reference-model oracle (independent lexer + predictive parser) + metamorphic layouts"),
    "C03": ("emulator state vectors and probabilities compared with an independent tensor-contraction simulator on executable programs over a harness-supplied native gate set; observed unitary-evaluation stream compared with the reference gate stream; a quarter of the circuits re-assembled from core constructors with statements made by keyword calls in random order",
            "reference-model oracle (independent simulator) + event log of unitary evaluations"),
    "C04": ("expand_macros output compared with reference call-by-substitution on the input IR; header/annotation preservation; wrong-arity probes built from core objects; circuits also assembled through the CircuitBuilder object API (objects built at once or unevaluated) and calls repeated on the same circuit object with the other option",
            "reference-model oracle (substitution semantics) + icontract postconditions on the real pass"),
    "C05": ("fill_in_let output compared with reference let evaluation under generated override dictionaries; graph walk for leftover constants; resolved-qubit comparison through the result's own objects; calls after earlier calls with other environments on the same circuit object and with one override dictionary shared by many calls",
            "reference-model oracle (let evaluation in an environment)"),
    "C06": ("bounded-exhaustive alias chains (all in-range start/stop/step per level incl. slices counting down, literal/defaulted/let-valued/overridden bounds, every index, seven statement positions); expected physical index from model arithmetic; six consumers compared (resolve_qubit, fill_in_map, used-qubit analysis, emulator on a backend shared between circuits, pyGSTi label, resolution in a caller-supplied context); references that denote no element must be refused by every consumer",
            "reference arithmetic on declarations + consumer agreement monitors"),
    "C07": ("meaning read from the parsed IR compared with the model's lexical binding, macros unexpanded and expanded, on programs biased to identical statements in different scopes and parameter/header name collisions; metamorphic removal of a twin statement; GateMemoizer.get cache hits monitored; routes text / S-expression lists and tuples / CircuitBuilder objects / text over one fixed gate-definition set judged after a shifted twin program (same spelling, aliases moved) was built in the same process",
            "reference-model oracle (lexical binding) + monitor on the gate memo table"),
    "C08": ("call histories of the emulator and of parse_jaqal_output_list (readout sequence, per-subcircuit readout lists, frequencies) compared with the reference unrolling; termination judged as a logical step budget counted with sys.monitoring LINE events; overrides applied before or after macro expansion; the job interface executed repeatedly",
            "history checker against reference unrolling + sys.monitoring step budget"),
    "C10": ("pass sequences (<=4, with repetition) over expand_subcircuits / fill_in_let(ov) / expand_macros / fill_in_map compared by full reference meaning; idempotence by ==, text and meaning; parser expand_* flags vs pass composition; generated text of every intermediate result re-parsed",
            "reference-model oracle over generated call sequences"),
    "C11": ("identity-aware deep fingerprints of the shared circuit object before and after every call (icontract snapshot/ensure on the nine real functions, plus the exception path) over random call histories with chained calls; every result compared with the same call on a freshly parsed copy and, for the used-qubit analysis, with an absolute invariant (only this circuit's register and indices); thorough: the repository's own tests run with the contracts on",
            "icontract contracts (input fingerprint unchanged) on the real functions + history/fresh-copy comparison"),
    "C12": ("bounded-exhaustive bracket sequences of prepare/measure/gate leaves under loop/block/macro/subcircuit containers judged against a flat-order scan transcribed from the property statement; accepted programs have subcircuit count and states compared; the same rule on the nestings only circuits assembled from core constructors can have",
            "reference acceptance oracle over an enumerated space + state comparison"),
    "C13": ("used-qubit sets of circuits and statements compared with reference reachability; emulator acceptance compared with a reference overlap scan; branch permutations; event log of every merge_into decision; gate definitions built directly and derived by copy() from an already-used definition",
            "reference-model oracle + event log of merge decisions + metamorphic permutation"),
    "C14": ("programs with exactly one seeded reference fault (index/bound out of range, non-register source, undefined/duplicate identifier, unknown gate, wrong count/kind, non-integral float; literal / let / override / macro substitution) each with a positive twin; stage-by-stage pipeline observed (parse, fill_in_let, expand_macros, run) and the parser's own substitution routes (expand_let / expand_let_map with override_dict); undefined-identifier faults also with the names the builder was observed (hook on Builder.build) to keep in its own context; gate-set precedence with scratch pulse modules",
            "fault-seeding workload with twin controls + stage-by-stage outcome monitor"),
    "C15": ("all result views (probabilities, string/int keyed views, readout forms, frequencies) checked against an independent bits(k,n) and plain counting on emulator results, exhaustive outcome lists for n<=6/8 as int and as str, and perturbed probability vectors",
            "invariant monitor over returned result objects"),
    "C16": ("random strings, truncations, token mutants and semantic-garbage templates through parse_to_sexpression / parse_jaqal_string (random flags) / run_jaqal_circuit under a logical step budget; outcome must be a result, JaqalError (JaqalParseError with a valid position) or a justified ImportError; call histories in fresh interpreter processes compared per text, plus a process-global state fingerprint after every call; tiny hostile texts parsed in child processes under a wall-clock limit four orders of magnitude above the normal cost (time inside one C-level call is invisible to step counting)",
            "exception-type / position monitor + sys.monitoring step budget + history comparison across fresh processes + global-state fingerprint"),
    "C17": ("each generated program built four ways (Jaqal text, S-expression build, CircuitBuilder objects, Q-syntax) and compared pairwise by ==, generated text and reference meaning; implicit prepare/measure wrapping rule; auto-generated names read back and checked for freshness against user names of both kinds; every Q-syntax function called twice; full-language programs (macros, aliases) built as text, S-expression and through the CircuitBuilder object API used the documented way must be equal and behave alike under the passes",
            "differential comparison of four front ends + reference-model oracle"),
    "C18": ("exhaustive signatures (length 0-3 over 5 kinds) x argument value classes (incl. infinities, NaN, huge floats) x arities n-1/n/n+1, positional vs keyword, against the kind table of the statement; idle and stretched variants of every native gate: signature, used qubits, emulated effect, unitary for sampled stretch factors",
            "exhaustive table-driven oracle over the real GateDefinition/Parameter code + emulator effect monitor"),
    "C19": ("reference lock-step scheduler applied to input and (required flat) output IR of normalize_blocks_with_unitary_timing with uniquely tagged gates; loops under parallel blocks must be rejected; header data and subcircuit annotations (counts 0, 1, n, let-valued) compared; parallel subcircuit blocks made from core constructors",
            "reference-model oracle (scheduler) with unambiguous gate identities"),
    "C20": ("reflexivity, symmetry, equality with the re-parse of generated text and of layout variants; every single-point mutant whose model declarations or meaning differ must compare unequal in both directions; outcome counters on every __eq__ of the IR classes",
            "mutation-based oracle on the real __eq__ methods + reach counters"),
    "C09": ("expand_subcircuits output compared with reference expansion (default, caller-supplied and named bounding gates, gate sets with and without the bounding gates, input header snapshot, repeated calls on one object); execution and output-list parsing compared between the subcircuit spelling and the prepare/measure spelling under the same numpy seed",
            "reference-model oracle + metamorphic execution pairs under a logical step budget"),
}
# what the rounds of seeded changes added to each workload (DESIGN.md section 10.2 has the reasons)
EXTRA = {
    "C01": "also circuits made through the CircuitBuilder objects (numpy numbers) and circuits derived from the parts of a circuit that was already written out (re-used header objects, renamed copy() of each macro)",
    "C02": "near misses also carry comments (multi-line block comments included); header-only entry points compared with the header of the full parse",
    "C03": "busy gates with a unitary, repeated prepare, stretched variants, integer overrides, overrides applied after macro expansion (passes or parser options), programs run through run_jaqal_string / run_jaqal_file with their gates loaded from a pulse module; one gate applied at near-twin arguments (integers that one double stands for, doubles next to each other), the parsed circuit compared with the program as written",
    "C04": "statements re-made by hand as GateStatement(definition, {name: value}) with the names in another order; wrong-arity calls nested in blocks, loops and other macros; number kind (int / float) of gate arguments kept by the substitution; refused expansions inside macro bodies followed by the valid program again",
    "C05": "the parser's own substitution routes (expand_let, expand_let_map); a quarter of the programs over the native gate set with that gate set in force",
    "C06": "references that denote no element must be refused by every consumer; whole registers and aliases as gate arguments (element-wise resolution, used-qubit analysis, fill_in_map); an indexed argument handed on to an inner macro that has a parameter of the same name (call-site analysis of the call statement)",
    "C07": "used-qubit analysis of calls in place and fill_in_map read back by name as further consumers; parameters handed over as Parameter objects",
    "C08": "programs also built from S-expressions with subcircuit blocks directly as loop bodies; negative counts judged for termination only; valid programs refused at build time are violations",
    "C09": "gate sets holding exactly one of the two bounding gates and caller names of which one is missing; subcircuit bodies with their own prepare/measure; statement-count invariant",
    "C10": "programs with the gate set in force, with their gates loaded from a pulse module, and C06's alias-chain programs; parser flags combined with return_usepulses and the file entry point; subcircuit counts kept until expand_subcircuits has run; aliases declared outside a macro and bounded by a constant, used inside a macro whose parameter has that constant's name",
    "C11": "circuits holding the experimental branch statement",
    "C12": "idle-gate variants, overridden loop counts in both pipeline orders, circuits built through the CircuitBuilder (macros whose body is a subcircuit block), circuits that grow between two runs, two-level macros whose names hold other content from program to program, refusals at build time judged; one subcircuit object per prepare/measure pair, numbered in flat order, readouts filed under their own pair; macros expanded (pass or parser option) before the run",
    "C13": "call-site scope analysis with a step budget, typed macro parameters, forwarding macros, the busy native gate (also stretched) beside an active gate, whole registers and aliases as arguments; bounding gates (busy) inside a parallel block beside an active gate, through the emulator and the output-list reader",
    "C14": "counting-down and empty aliases, faults behind let / override / macro argument, CircuitBuilder route with the statements inside eagerly built loops of four shapes, import-precedence probes; the other pass order (macros first, by passes and by the parser's options) for every fault; overridden constants handed to macros as index arguments",
    "C15": "every string view handed out is kept and compared again after all other views were requested; deprecated and fractional views; output lists for programs without the harness gate set",
    "C16": "hang probes in child processes, exact lexical positions, overflow templates, non-register templates, run_jaqal_string entry, import histories over five module layouts (relative / absolute, modules that fail while loading), missing search directories; parse_to_sexpression and the header-only entry point with and without return_usepulses must agree in outcome and position",
    "C17": "random layout and comments on the text route, near-twin number literals, objects built eagerly or unevaluated",
    "C18": "numpy numbers, values false in a truth test, constants defined through constants, one definition object shared by all calls of a signature, stretched_gates(update=True) with arbitrary keys, idle gates with names of their own, stretched variants called; stretched variants derived for two gate models with the same names and signatures in one process",
    "C19": "zero counts, same-kind nestings and unscheduled / shared block objects assembled from core constructors, macros whose bodies are not in normal form, the same import twice",
    "C20": "near-twin statements with hash-equal integers, loop/subcircuit exchange mutants, one text parsed with the shared gate set right after a near twin and with a gate set of its own",
}

SECTION = {k: "DESIGN.md section 4 %s and section 10.2" % k for k in ["C%02d" % i for i in range(1, 21)]}
PENDING_REASON = "check not built yet in this session (work in progress; DESIGN.md section 4 has the plan)"


def main():
    checks = []
    for pid in sorted(CHECKS):
        text, tech = CHECKS[pid]
        checks.append({
            "property_id": pid,
            "quick_cmd": "./check %s --tier quick" % pid,
            "thorough_cmd": "./check %s --tier thorough" % pid,
            "evidence_file": "evidence/%s.json" % pid,
            "replay_cmd_template": "./check %s --replay {path}" % pid,
            "engine": "vf",
            "level_claimed": {"category": "exploration", "text": text + ("; " + EXTRA[pid] if pid in EXTRA else "") + "; verdict = held on the executions observed (counts and feature histograms in the evidence file)", "design_ref": SECTION[pid]},
            "level_note": "trusts the harness's reference semantics (vf/meaning.py, vf/refexec.py, vf/refparse.py), its generators' coverage as listed in the evidence, and CPython; says nothing about inputs not generated",
            "technique": TECH % tech,
        })
    na = [{"property_id": "C%02d" % i, "reason": PENDING_REASON} for i in range(1, 21) if "C%02d" % i not in CHECKS]
    man = {
        "version": 1,
        "setup_cmd": "./setup.sh",
        "hooks": {
            "guard": "JAQALPAQ_VERIF",
            "enable": "no source hooks: checks import jaqalpaq from /repo/src (pure Python, editable install) with JAQALPAQ_VERIF=1; all monitors (icontract contracts, sys.monitoring step budgets, event logs, audit hook) are installed from /verif by rebinding at run time",
            "baseline_off_cmd": "cd /repo && /venv/bin/python -m pytest -ra -q -p no:cacheprovider --timeout=120 --continue-on-collection-errors",
            "source_commits": [],
            "add_only": True,
        },
        "engines": [{"name": "vf", "path": "vf/", "serves_properties": sorted(CHECKS),
                     "kind_free_text": "runtime monitoring harness: generated/hostile workloads against the real code, reference-model oracles, icontract contracts on the real functions, sys.monitoring step budgets and reach counters, event logs"}],
        "checks": checks,
        "not_applicable": na,
        "notes": "All claimed levels are 'exploration'. Genuine defects found are listed in known_findings.json (fixed ones with their commit). See DESIGN.md.",
    }
    with open(os.path.join(ROOT, "MANIFEST.json"), "w") as fd:
        json.dump(man, fd, indent=1)
    print("wrote MANIFEST.json with %d checks, %d not_applicable" % (len(checks), len(na)))


if __name__ == "__main__":
    main()
