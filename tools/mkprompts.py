#!/usr/bin/env python3
"""Write the prompts for one round of seeding agents.

    tools/mkprompts.py ROUND WORKDIR        e.g.  tools/mkprompts.py 10 /tmp/seed10

For every property a prompt is written to seeded/prompts<ROUND>/prompt_<ID>.txt.  A prompt holds the text of the
property (title, statement, quantifier), the worktree the agent may use, and one line per change that earlier agents
already delivered for that property (the first lines of their notes), so that a new agent looks elsewhere.  Nothing
from /verif other than those summaries goes into a prompt: no check, no generator, no oracle.
"""
import json
import os
import re
import sys

ROOT = os.path.dirname(os.path.dirname(os.path.abspath(__file__)))
rnd, work = sys.argv[1], sys.argv[2].rstrip("/")
props = [json.loads(l) for l in open(os.path.join(ROOT, "properties.jsonl")) if l.strip()]
template = open(os.path.join(ROOT, "tools", "prompt_template.txt")).read()
extra = {}
xp = os.path.join(ROOT, "tools", "prompt_extra_r%s.json" % rnd)
if os.path.exists(xp):
    extra = json.load(open(xp))
outdir = os.path.join(ROOT, "seeded", "prompts" + rnd)
os.makedirs(outdir, exist_ok=True)


def key(name):
    return int(name.split("-")[1])


for p in props:
    pid = p["id"]
    tried = []
    names = sorted((d for d in os.listdir(os.path.join(ROOT, "seeded")) if re.fullmatch(pid + r"-\d+", d)), key=key)
    for n in names:
        notes = os.path.join(ROOT, "seeded", n, "notes.md")
        text = open(notes).read() if os.path.exists(notes) else ""
        if not text.strip():
            meta = json.load(open(os.path.join(ROOT, "seeded", n, "meta.json")))
            text = meta.get("needs_to_manifest", "")
        text = " ".join(text.split())
        if text:
            tried.append("- " + text[:300])
    body = template
    body = body.replace("@WORK@", work + "/" + pid).replace("@TITLE@", p["title"]).replace("@STATEMENT@", p["statement"])
    body = body.replace("@QUANT@", p["quantifier"]["text"]).replace("@TRIED@", "\n".join(tried))
    body = body.replace("@EXTRA@", extra.get(pid, extra.get("*", "")))
    open(os.path.join(outdir, "prompt_%s.txt" % pid), "w").write(body)
    print(pid, len(tried), "earlier changes listed")
