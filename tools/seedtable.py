#!/usr/bin/env python3
"""Markdown table of the seeded changes and which checks catch them (from seeded/RESULTS.json)."""
import json, os, sys
ROOT = os.path.dirname(os.path.dirname(os.path.abspath(__file__)))
d = sys.argv[1] if len(sys.argv) > 1 else "seeded"
res = json.load(open(os.path.join(ROOT, d, "RESULTS.json")))
print("| change | property | what it needs to manifest (from its author's notes) | tests still pass / demo fails | caught by (quick tier) | signature of first witness |")
print("|---|---|---|---|---|---|")
for name in sorted(res):
    r = res[name]
    meta = json.load(open(os.path.join(ROOT, d, name, "meta.json")))
    note = (meta.get("needs_to_manifest") or meta.get("what") or "").strip().replace("\n", " ")
    note = note.lstrip("# ").replace("|", "\\|")[:230]
    caught = ", ".join(r.get("caught_by") or []) or "**none**"
    sig = ""
    for c in r.get("caught_by") or []:
        s = r["checks"][c]["signatures"]
        if s:
            sig = s[0].replace("signature: ", "").split("   (")[0][:110]
            break
    print("| %s | %s | %s | %s / %s | %s | `%s` |" % (name, r["property"], note, r.get("tests", "?")[:10], "yes" if r.get("demo_after") else "no", caught, sig))
