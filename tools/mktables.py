#!/usr/bin/env python3
"""Regenerate the generated tables of DESIGN.md in place (between <!-- NAME:begin --> / <!-- NAME:end --> markers):
   findings  <- known_findings.json
   seeded    <- seeded/RESULTS.json + seeded/*/meta.json
   mutants   <- vf/selftest/mutants/RESULTS.json + meta.json"""
import json
import os
import re

ROOT = os.path.dirname(os.path.dirname(os.path.abspath(__file__)))


def findings():
    k = json.load(open(os.path.join(ROOT, "known_findings.json")))["findings"]
    out = ["| id | property | status | /repo commit | what failed | shortest witness |", "|---|---|---|---|---|---|"]
    for f in k:
        what = re.sub(r"^fixed: property=C\d\d \w+ ", "", f["what"]).replace("|", "\\|")
        wit = (f.get("witness") or "").replace("|", "\\|").replace("\n", " ")[:140]
        out.append("| %s | %s | %s | %s | %s | `%s` |" % (f["id"], f["property"], f["status"], f.get("commit", "-"), what, wit))
    out.append("")
    out.append("%d entries: %d fixed, %d open." % (len(k), sum(f["status"] == "fixed" for f in k), sum(f["status"] != "fixed" for f in k)))
    return "\n".join(out)


def summarise(meta):
    raw = (meta.get("what") or meta.get("needs_to_manifest") or meta.get("description") or "").strip()
    lines = [l.strip() for l in raw.splitlines() if l.strip()]
    title = re.sub(r"^#+\s*(Change\s*\d+\s*[-:\u2013\u2014]*\s*)?", "", lines[0]) if lines else ""
    flat = " ".join(lines[1:])
    m = re.search(r"Needed to manifest:?\**\s*(.*)", flat, re.I)
    need = (" -- needs: " + m.group(1)[:230]) if m else ""
    return (title[:200] + need).replace("|", "\\|").replace("`", "'")


def seeds(d):
    p = os.path.join(ROOT, d, "RESULTS.json")
    if not os.path.exists(p):
        return "(no RESULTS.json yet)"
    res = json.load(open(p))
    out = ["| change | property | what was changed / what it needs to manifest | suite with change | demo fails | caught by its property's quick check | first signature |",
           "|---|---|---|---|---|---|---|"]
    n = caught = 0
    for name in sorted(res):
        r = res[name]
        meta = json.load(open(os.path.join(ROOT, d, name, "meta.json")))
        note = summarise(meta)
        cb = r.get("caught_by") or []
        sig = ""
        for c in cb:
            s = r["checks"][c]["signatures"]
            if s:
                sig = s[0].replace("signature: ", "").split("   (")[0][:100]
                break
        n += 1
        caught += bool(cb)
        benign = meta.get("benign")
        verdict = ", ".join(cb) if cb else ("not flagged (benign control: correct)" if benign else "**none**")
        out.append("| %s | %s | %s | %s | %s | %s | `%s` |" % (name, r["property"], note, r.get("tests", "-")[:10], "yes" if r.get("demo_after") else "no", verdict, sig))
    out.append("")
    out.append("%d changes, %d flagged." % (n, caught))
    return "\n".join(out)


def costs():
    """Measured: quick tier from evidence/*.json (last run), thorough tier from runs/thorough_*.log (kept logs)."""
    import glob

    thorough = {}
    for f in sorted(glob.glob(os.path.join(ROOT, "runs", "thorough_*.log"))):
        for line in open(f):
            m = re.search(r"SUMMARY property=(C\d\d) tier=thorough seed=(\d+) evaluations=(\d+) distinct_nontrivial=(\d+) shards=(\S+) wall=([\d.]+)s", line)
            if m:
                rc = re.search(r"rc=(\d+)", line)
                thorough.setdefault(m.group(1), []).append((m.group(2), int(m.group(3)), int(m.group(4)), float(m.group(6)), rc.group(1) if rc else "?"))
    out = ["| property | quick: evaluations / distinct non-trivial / wall | thorough (seed: evaluations / distinct non-trivial / wall / exit) |", "|---|---|---|"]
    for i in range(1, 21):
        pid = "C%02d" % i
        q = "-"
        ep = os.path.join(ROOT, "evidence", pid + ".json")
        if os.path.exists(ep):
            e = json.load(open(ep))
            cov = e.get("coverage", {})
            q = "%s / %s / %.0f s" % (cov.get("evaluations", "?"), cov.get("distinct_nontrivial", cov.get("distinct", "?")), e.get("wall_s", 0))
            if e.get("tier") != "quick":
                q += " (%s tier)" % e.get("tier")
        t = "; ".join("seed %s: %d / %d / %.0f s / exit %s" % x for x in thorough.get(pid, [])) or "-"
        out.append("| %s | %s | %s |" % (pid, q, t))
    return "\n".join(out)


def main():
    path = os.path.join(ROOT, "DESIGN.md")
    text = open(path).read()
    for name, body in (("findings", findings()), ("seeded", seeds("seeded")), ("mutants", seeds("vf/selftest/mutants")), ("costs", costs())):
        pat = re.compile(r"(<!-- %s:begin -->\n).*?(<!-- %s:end -->)" % (name, name), re.S)
        if pat.search(text):
            text = pat.sub(lambda m: m.group(1) + body + "\n" + m.group(2), text)
        else:
            print("marker missing:", name)
    open(path, "w").write(text)


if __name__ == "__main__":
    main()
