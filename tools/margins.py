#!/usr/bin/env python3
"""How far above its REQUIRE thresholds did the last run of each check stay (from evidence/*.json)?"""
import importlib, json, os, sys
ROOT = os.path.dirname(os.path.dirname(os.path.abspath(__file__)))
sys.path.insert(0, ROOT)
worst = []
for i in range(1, 21):
    pid = "C%02d" % i
    src = open(os.path.join(ROOT, "vf", "props", pid.lower() + ".py")).read()
    ns = {}
    start = src.index("\nREQUIRE = ") + 1
    end = src.index("}", start) + 1
    exec(src[start:end], ns)
    ev = json.load(open(os.path.join(ROOT, "evidence", pid + ".json")))
    cnt = ev["coverage"]["counters"]
    rows = sorted(((cnt.get(k, 0) / v, k, cnt.get(k, 0), v) for k, v in ns["REQUIRE"].items()))
    r = rows[0]
    print("%s tier=%s wall=%.0fs  tightest: %-55s %8d / %-6d = %.1fx" % (pid, ev["tier"], ev["wall_s"], r[1], r[2], r[3], r[0]))
    for r in rows[1:3]:
        if r[0] < 3:
            print("      also: %-55s %8d / %-6d = %.1fx" % (r[1], r[2], r[3], r[0]))
